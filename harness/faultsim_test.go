package harness

import (
	"bytes"
	"encoding/json"
	"errors"
	"fmt"
	"math/rand"
	"os"
	"regexp"
	"sort"
	"strings"
	"time"

	"github.com/thomasjungblut/go-sstables/skiplist"
	"github.com/thomasjungblut/go-sstables/sstables"
	"verifsim/fsmodel"
	"verifsim/simrt"
)

// faultsim (C11):
//   mode "merge": Merge / MergeCompact over in-memory input iterators and an in-memory writer; a failure is
//     injected at every record position of every input and at every write position of the output (single faults
//     exhaustively, double faults sampled). The call must return an error.
//   mode "system": SimpleDB sessions under the scheduler with one injected EIO / ENOSPC at the n-th write, fsync,
//     create or rename system call issued by the flusher or the compactor (every n of the sampled session in
//     thorough, a sample in quick). Afterwards the process is gone (stopped or closed), faults are off, the
//     directory is recovered and must hold every acknowledged write.

var failureWords = regexp.MustCompile(`(?i)\b(error|err|fail|failed|failure|cannot|could not)\b`)

func init() {
	harnesses["faultsim"] = faultsimMain
	replayers["faultsim"] = faultsimReplay
}

// ---------------- merge arm ----------------

type mergeCase struct {
	Tables  [][]int `json:"tables"` // key numbers, ascending per table
	Compact bool    `json:"compact"`
	Tombs   int64   `json:"tomb_seed"`
}

var errIter = errors.New("injected iterator failure")
var errWrite = errors.New("injected writer failure")

type memIter struct {
	keys   []int
	table  int
	pos    int
	failAt int // position whose Next fails (-1 none)
	tombs  int64
	fired  *int
}

func mkKey(i int) []byte { return []byte(fmt.Sprintf("k%05d", i)) }

func (m *memIter) Next() ([]byte, []byte, error) {
	if m.pos == m.failAt {
		m.failAt = -1
		*m.fired++
		return nil, nil, errIter
	}
	if m.pos >= len(m.keys) {
		return nil, nil, sstables.Done
	}
	k := m.keys[m.pos]
	m.pos++
	var v []byte
	if (int64(k)*31+int64(m.table)*17+m.tombs)%5 != 0 {
		v = []byte(fmt.Sprintf("t%d-k%d", m.table, k))
	}
	return mkKey(k), v, nil
}

type memWriter struct {
	out    []kv
	n      int
	failAt int
	fired  *int
}

func (w *memWriter) Open() error { return nil }
func (w *memWriter) WriteNext(k, v []byte) error {
	if w.n == w.failAt {
		w.failAt = -1
		w.n++
		*w.fired++
		return errWrite
	}
	w.n++
	w.out = append(w.out, kv{append([]byte{}, k...), v})
	return nil
}
func (w *memWriter) Close() error { return nil }

func mergeGen(r *rand.Rand, thorough bool) mergeCase {
	c := mergeCase{Compact: r.Intn(3) != 0, Tombs: r.Int63n(100)}
	nt := 1 + r.Intn(4)
	next := 0
	for t := 0; t < nt; t++ {
		n := r.Intn(7)
		if thorough {
			n = r.Intn(20)
		}
		var keys []int
		if c.Compact {
			k := r.Intn(4)
			for i := 0; i < n; i++ {
				keys = append(keys, k)
				k += 1 + r.Intn(3)
			}
		} else { // plain Merge wants disjoint inputs
			for i := 0; i < n; i++ {
				keys = append(keys, next)
				next += 1 + r.Intn(2)
			}
		}
		c.Tables = append(c.Tables, keys)
	}
	return c
}

// runMerge executes one merge with the given fault positions: iterFail[t] = position in table t (-1 none), writeFail = write index (-1 none).
func runMerge(mc mergeCase, iterFail []int, writeFail int) (err error, fired int, out []kv) {
	var its []sstables.SSTableMergeIteratorContext
	for t, keys := range mc.Tables {
		its = append(its, sstables.NewMergeIteratorContext(t, &memIter{keys: keys, table: t, failAt: iterFail[t], tombs: mc.Tombs, fired: &fired}))
	}
	w := &memWriter{failAt: writeFail, fired: &fired}
	m := sstables.NewSSTableMerger(skiplist.BytesComparator{})
	func() {
		defer func() {
			if p := recover(); p != nil {
				err = fmt.Errorf("panic: %v", p)
			}
		}()
		if mc.Compact {
			err = m.MergeCompact(its, w, sstables.ScanReduceLatestWinsSkipTombstones)
		} else {
			err = m.Merge(its, w)
		}
	}()
	return err, fired, w.out
}

func mergeCheck(c *Ctx, mc mergeCase, r *rand.Rand) (vs []dbViolation, evals int) {
	none := make([]int, len(mc.Tables))
	for i := range none {
		none[i] = -1
	}
	name := "Merge"
	if mc.Compact {
		name = "MergeCompact"
	}
	// fault-free control: must succeed (its content is C08's business; a failing control is a harness problem)
	err, _, out := runMerge(mc, none, -1)
	evals++
	Beat()
	if err != nil {
		panic(fmt.Sprintf("faultsim control run failed (outside this check's claim): %v", err))
	}
	writes := len(out)
	add := func(sig, detail string) { vs = append(vs, dbViolation{sig, detail}) }
	for t, keys := range mc.Tables {
		for p := 0; p <= len(keys); p++ {
			f := append([]int{}, none...)
			f[t] = p
			err, fired, _ := runMerge(mc, f, -1)
			evals++
			Beat()
			c.Count("fault:iterator-next-error", fired)
			if fired > 0 && err == nil {
				add("fault-absorbed|iterator|"+name, fmt.Sprintf("%s returned nil although Next of input %d failed at record position %d of %d (inputs %v)", name, t, p, len(keys), mc.Tables))
				return
			}
		}
	}
	for n := 0; n < writes; n++ {
		err, fired, _ := runMerge(mc, none, n)
		evals++
		Beat()
		c.Count("fault:writer-writenext-error", fired)
		if fired > 0 && err == nil {
			add("fault-absorbed|writer|"+name, fmt.Sprintf("%s returned nil although WriteNext #%d of %d failed (inputs %v)", name, n, writes, mc.Tables))
			return
		}
	}
	// sampled double faults
	for i := 0; i < 10 && len(mc.Tables) > 0; i++ {
		f := append([]int{}, none...)
		t := r.Intn(len(mc.Tables))
		f[t] = r.Intn(len(mc.Tables[t]) + 1)
		wf := -1
		if writes > 0 {
			wf = r.Intn(writes)
		}
		err, fired, _ := runMerge(mc, f, wf)
		evals++
		Beat()
		if fired > 0 && err == nil {
			add("fault-absorbed|double|"+name, fmt.Sprintf("%s returned nil although %d injected failures fired (iterator %d at %d, write %d)", name, fired, t, f[t], wf))
			return
		}
	}
	return
}

// ---------------- system arm ----------------

type sysCase struct {
	DB    dbCase `json:"db"`
	N     int    `json:"fault_index"`
	Errno string `json:"errno"`
	Short int    `json:"short,omitempty"`
}

func backgroundFaultFilter(p simrt.OpPoint) bool {
	// the flusher, the compactor, and the flush that Open performs itself after replaying a non-empty WAL
	inOpenFlush := false
	if w := simrt.W(); w != nil && w.Phase == "open" && p.Name == "main" && strings.HasPrefix(p.Rel, "flush_") {
		inOpenFlush = true
	}
	if !inOpenFlush && !strings.Contains(p.Name, "flush") && !strings.Contains(p.Name, "ompaction") && !strings.Contains(p.Name, "Flush") {
		return false
	}
	// the bloom filter dependency overwrites its own write error with the result of Close: not this repository's code
	if strings.HasSuffix(p.Rel, "bloom.bf.gz") {
		return false
	}
	switch p.Kind {
	case "write", "fsync", "create", "rename", "read":
		return true
	}
	return false
}

type sysOutcome struct {
	vs       []dbViolation
	eligible int
	fired    int
	stopped  bool
	kind     string
}

func runSysCase(c *Ctx, sc sysCase, tape *simrt.Tape) sysOutcome {
	var out sysOutcome
	dir := freshDir(c, "db")
	defer os.RemoveAll(dir)
	r := newDBRunner(c.T, dir, tape, sc.DB.Keys)
	defer simrt.Deactivate()
	r.w.FaultFilter = backgroundFaultFilter
	if sc.N >= 0 {
		r.w.FaultAt = map[int]simrt.FaultSpec{sc.N: {Errno: sc.Errno, Short: sc.Short}}
	}
	add := func(sig, detail string) { out.vs = append(out.vs, dbViolation{sig, detail}) }
	var lastRes sessionResult
	for si, s := range sc.DB.Sessions {
		lastRes = r.runSession(si, s)
		if lastRes.OpenErr != nil || len(lastRes.Stopped) > 0 || lastRes.SchedErr != nil || lastRes.CloseErr != nil {
			break
		}
	}
	out.eligible = r.w.EligibleOps
	for _, n := range r.w.FaultsFired {
		out.fired += n
	}
	trace := r.w.Trace()
	hist := r.hist
	simrt.Deactivate()
	r.w.ReleaseAll()
	if out.fired == 0 {
		// control run (or the fault index lies beyond this schedule): everything must have worked
		if lastRes.OpenErr != nil || len(lastRes.Stopped) > 0 || lastRes.SchedErr != nil || lastRes.CloseErr != nil {
			// no fault fired, yet a session failed: not this property's subject, but a violation all the same (C01: on
			// valid workloads no flush or compaction cycle ever fails or terminates the process) - reported as such
			what := fmt.Sprintf("open=%v stopped=%v sched=%v close=%v", lastRes.OpenErr, lastRes.Stopped, lastRes.SchedErr, lastRes.CloseErr)
			add("C01:fault-free-run-failed|"+normErr(errors.New(what)), "a run of the fault arm in which no fault fired failed: "+what)
		}
		return out
	}
	out.stopped = len(lastRes.Stopped) > 0
	reported := out.stopped || lastRes.CloseErr != nil || lastRes.OpenErr != nil
	for _, op := range hist {
		if op.Err != "" {
			reported = true
		}
	}
	// a background cycle that logs its failure and carries on (retrying later) has reported it too: the statement
	// asks for an error or a stop, not for a particular channel
	afterFault := false
	for _, e := range trace {
		if e.Kind == simrt.EvFault {
			afterFault = true
		}
		if afterFault && e.Kind == simrt.EvLog && failureWords.MatchString(e.Note) {
			reported = true
			c.Count("probe:fault-reported-by-log-line", 1)
			break
		}
	}
	if lastRes.SchedErr != nil && !out.stopped {
		add("fault-then-hang|"+lastRes.SchedErr.Error(), fmt.Sprintf("after the injected %s the run neither stopped nor finished: %v %v", sc.Errno, lastRes.SchedErr, lastRes.TasksLeft))
		return out
	}
	// the process is gone; faults are off; recover what is on disk (model image = the recorded system calls)
	m := fsmodel.New()
	for _, e := range trace {
		if err := m.Apply(e); err != nil {
			panic("model fidelity: " + err.Error())
		}
	}
	rec := recoverImage(c, m, sc.DB.Recovery, sc.DB.Keys, simrt.NewTape(3), false)
	tags := strings.Join(imageTags(m), ",")
	faultDesc := ""
	for _, e := range trace {
		if e.Kind == simrt.EvFault {
			faultDesc = fmt.Sprintf("%s on %s by %s", e.Note, e.Path, e.TName)
			out.kind = e.Note + "@" + pathClass(e.Path)
		}
	}
	state := "reported"
	if !reported {
		state = "absorbed"
		// The statement itself: a failing read or write system call of a flush or compaction makes the operation
		// return an error or stops the process. When the session in which the fault fired ran to the end of a clean
		// Close (so nothing was cut short by the harness) and no call, no Close and no later Open reported anything,
		// the failure was absorbed - whatever is on disk afterwards.
		faultSession := -1
		for _, e := range trace {
			if e.Kind == simrt.EvMark && e.Note == "open" {
				faultSession++
			}
			if e.Kind == simrt.EvFault {
				break
			}
		}
		cut := faultSession < 0 || faultSession >= len(sc.DB.Sessions) || sc.DB.Sessions[faultSession].NoClose
		if !cut && (strings.HasPrefix(out.kind, "write:") || strings.HasPrefix(out.kind, "read:")) {
			add("fault-not-reported|"+digits.ReplaceAllString(out.kind, "N"), fmt.Sprintf("injected %s: no call returned an error, the process did not stop, Close and the next Open succeeded: the failure of a background flush or compaction was absorbed", faultDesc))
		} else {
			c.Count("probe:fault-not-reported-"+map[bool]string{true: "in-a-session-the-harness-killed", false: "create-rename-fsync"}[cut], 1)
		}
	}
	if rec.openErr != nil {
		add("after-fault|open-error:"+normErr(rec.openErr)+"|"+state+"|"+out.kind, fmt.Sprintf("injected %s (%s): re-opening the directory afterwards fails: %v [%s]", faultDesc, state, rec.openErr, tags))
		return out
	}
	if rec.getErr != nil {
		add("after-fault|get-error|"+state+"|"+out.kind, fmt.Sprintf("injected %s (%s): %v [%s]", faultDesc, state, rec.getErr, tags))
		return out
	}
	if kind, detail := judgeSync(hist, sc.DB.Keys, rec.state, 1<<60); kind != "" {
		// operations that never returned are optional (judgeSync treats Ret==0 as in flight)
		add("after-fault|"+kind+"|"+state+"|"+out.kind, fmt.Sprintf("injected %s (%s): %s [%s]", faultDesc, state, detail, tags))
	}
	return out
}

func pathClass(p string) string {
	switch {
	case strings.HasPrefix(p, "sstable_compaction"):
		return "compaction/" + p[strings.LastIndex(p, "/")+1:]
	case strings.HasPrefix(p, "flush_"):
		return "flush/" + p[strings.LastIndex(p, "/")+1:]
	case strings.HasPrefix(p, "wal/"):
		return "wal"
	case strings.HasPrefix(p, "sstable_"):
		return "table/" + p[strings.LastIndex(p, "/")+1:]
	}
	return "other"
}

func sysGen(r *rand.Rand, thorough bool) dbCase {
	nkeys := 3 + r.Intn(4)
	c := dbCase{Keys: genKeys(r, nkeys)}
	nsess := 1 + r.Intn(2)
	for s := 0; s < nsess; s++ {
		opts := genOpts(r)
		opts.Memstore = pick(r, uint64(64), 128, 256, 512)
		opts.Threshold = pick(r, 0, 1, 1, 2)
		opts.Compactions = r.Intn(5) != 0
		opts.WriteBuf = pick(r, uint64(64), 256, 4096, 4<<20)
		nops := 12 + r.Intn(30)
		knobs := genKnobs(r)
		knobs.Advance = pick(r, 1, 2, 4)
		c.Sessions = append(c.Sessions, dbSession{Opts: opts, Clients: [][]dbOp{genProgram(r, nkeys, nops, 10, 20)}, Knobs: knobs})
	}
	c.Recovery = genOpts(r)
	if nsess > 1 && r.Intn(2) == 0 {
		// the first session is killed instead of closed: the next Open finds a WAL to replay and flushes it itself
		c.Sessions[0].NoClose = true
	}
	if r.Intn(6) == 0 {
		// tables larger than the 4 MiB read buffer of the compaction's input scanners, so that an input iterator can
		// fail in the middle of a merge (with smaller tables the whole file is buffered by the first read)
		opts := genOpts(r)
		opts.Memstore = 5 << 20
		opts.Threshold = 1
		opts.MaxSize = 5 << 30
		opts.Ratio = 1
		opts.Compactions = true
		opts.WriteBuf = 4 << 20
		opts.ReadBuf = 4 << 20
		var prog []dbOp
		n := 16 + r.Intn(8)
		c.Keys = genKeys(r, 24) // (nearly) every value lives in exactly one table: a merge that loses records loses data
		for i := 0; i < n; i++ {
			prog = append(prog, dbOp{Kind: "put", Key: (i * 7) % 24, ValLen: 700_000 + r.Intn(100_000)})
		}
		knobs := genKnobs(r)
		knobs.Advance = 4
		c.Sessions = []dbSession{{Opts: opts, Clients: [][]dbOp{prog}, Knobs: knobs}}
		c.Recovery.ReadBuf = 4 << 20
	}
	return c
}

func faultsimMain(c *Ctx) {
	for i := 0; c.TimeLeft(); i++ {
		seed := c.RunSeed(i)
		r := rand.New(rand.NewSource(seed))
		c.Res.Runs++
		if len(c.Res.Seeds) < 8 {
			c.Res.Seeds = append(c.Res.Seeds, seed)
		}
		if c.Mode == "merge" {
			mc := mergeGen(r, c.Thorough())
			c.Begin(seed, mc)
			vs, evals := mergeCheck(c, mc, r)
			c.Res.Evaluations += evals
			total := 0
			for _, t := range mc.Tables {
				total += len(t)
			}
			if total > 0 {
				c.Distinct(hash64("merge", mustJSON(mc)))
			}
			c.Sample(map[string]any{"run_seed": seed, "case": mc})
			for _, v := range vs {
				c.Report(Violation{Sig: v.sig, Detail: v.detail}, &ReplayFile{RunSeed: seed, Case: mustJSON(mc)})
			}
			continue
		}
		dc := sysGen(r, c.Thorough())
		c.Begin(seed, sysCase{DB: dc, N: -1})
		ctl := runSysCase(c, sysCase{DB: dc, N: -1}, simrt.NewTape(seed))
		c.Res.Evaluations++
		Beat()
		c.Count("eligible-background-syscalls", ctl.eligible)
		for _, v := range ctl.vs {
			reportSys(c, v, seed, sysCase{DB: dc, N: -1})
		}
		if ctl.eligible == 0 {
			continue
		}
		var idx []int
		for n := 0; n < ctl.eligible; n++ {
			idx = append(idx, n)
		}
		if !c.Thorough() && len(idx) > 24 {
			r.Shuffle(len(idx), func(a, b int) { idx[a], idx[b] = idx[b], idx[a] })
			idx = idx[:24]
			sort.Ints(idx)
		}
		c.Sample(map[string]any{"run_seed": seed, "keys": len(dc.Keys), "sessions": summarizeSessions(dc), "eligible_background_syscalls": ctl.eligible, "fault_positions_tried": len(idx)})
		for _, n := range idx {
			if c.MemoryHigh() || (!c.TimeLeft() && !c.Thorough()) {
				break
			}
			sc := sysCase{DB: dc, N: n, Errno: pick(r, "EIO", "ENOSPC")}
			if r.Intn(4) == 0 {
				sc.Short = 1 + r.Intn(30)
			}
			c.Begin(seed, sc)
			out := runSysCase(c, sc, simrt.NewTape(seed))
			c.Res.Evaluations++
			Beat()
			c.RunHash(nil, seed, n, out.fired, out.stopped, out.kind, len(out.vs))
			if out.fired > 0 {
				c.Count("fault:"+digits.ReplaceAllString(out.kind, "N"), 1)
				c.Distinct(hash64("sys", seed, n))
				if out.stopped {
					c.Count("probe:process-stopped-after-fault", 1)
				} else {
					c.Count("probe:run-continued-after-fault", 1)
				}
			}
			for _, v := range out.vs {
				reportSys(c, v, seed, sc)
			}
		}
	}
}

// reportSys files a violation of the system arm; signatures prefixed "C01:" belong to that property (fault-free failure).
func reportSys(c *Ctx, v dbViolation, seed int64, sc sysCase) {
	prop := ""
	if strings.HasPrefix(v.sig, "C01:") {
		prop = "C01"
	}
	c.Report(Violation{Property: prop, Sig: v.sig, Detail: v.detail}, &ReplayFile{RunSeed: seed, Case: mustJSON(sc)})
}

func faultsimReplay(c *Ctx, rf *ReplayFile) []Violation {
	var out []Violation
	if rf.Mode == "merge" {
		var mc mergeCase
		if err := json.Unmarshal(rf.Case, &mc); err != nil {
			panic(err)
		}
		vs, _ := mergeCheck(c, mc, rand.New(rand.NewSource(rf.RunSeed)))
		for _, v := range vs {
			out = append(out, Violation{Property: rf.Property, Sig: v.sig, Detail: v.detail})
		}
		return out
	}
	var sc sysCase
	if err := json.Unmarshal(rf.Case, &sc); err != nil {
		panic(err)
	}
	for _, v := range runSysCase(c, sc, simrt.NewTape(rf.RunSeed)).vs {
		out = append(out, Violation{Property: rf.Property, Sig: v.sig, Detail: v.detail})
	}
	return out
}

var _ = bytes.Equal
var _ = time.Now

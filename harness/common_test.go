package harness

import (
	"bytes"
	"crypto/sha256"
	"encoding/binary"
	"encoding/json"
	"fmt"
	"math/rand"
	"os"
	"path/filepath"
	"regexp"
	"runtime/debug"
	"sort"
	"strconv"
	"strings"
	"testing"
	"testing/synctest"
	"time"

	"verifsim/simrt"
)

// ---------------------------------------------------------------------------
// Worker protocol: one OS process runs one harness arm for one property with a
// base seed, a worker index and a wall-clock budget, and writes a Result JSON.
// ---------------------------------------------------------------------------

type Violation struct {
	Property string `json:"property"`
	Sig      string `json:"sig"`    // structured signature: class|site|tags
	Detail   string `json:"detail"` // human readable
	Known    string `json:"known,omitempty"`
	Replay   string `json:"replay,omitempty"`
}

type Result struct {
	Property    string         `json:"property"`
	Harness     string         `json:"harness"`
	Mode        string         `json:"mode"`
	Tier        string         `json:"tier"`
	Seed        int64          `json:"seed"`
	Worker      int            `json:"worker"`
	Runs        int            `json:"runs"`        // simulated runs (sessions / programs / tables)
	Evaluations int            `json:"evaluations"` // oracle evaluations (crash images, damage positions, histories, ...)
	Distinct    []uint64       `json:"distinct"`    // hashes of distinct non-trivial cases (capped)
	DistinctCap bool           `json:"distinct_capped"`
	Counters    map[string]int `json:"counters"` // probes, fault kinds fired, verdicts
	SimSeconds  float64        `json:"sim_seconds"`
	WallS       float64        `json:"wall_s"`
	Samples     []any          `json:"samples"`
	Violations  []Violation    `json:"violations"`
	Infra       string         `json:"infra,omitempty"` // non-empty: infrastructure trouble (exit 2)
	Exhaustive  bool           `json:"exhaustive"`
	Seeds       []int64        `json:"seeds"`                // run seeds used (first few)
	RunHashes   []string       `json:"run_hashes,omitempty"` // determinism self-test: digest of each run's complete event log
}

type Ctx struct {
	// oddNames: the directories of the current case get names holding glob metacharacters, a backslash, a blank and a
	// per cent sign (set from the case by the arm, so that a replay uses the same kind of name)
	oddNames bool
	T         *testing.T
	Property  string
	Harness   string
	Mode      string
	Tier      string
	Seed      int64
	Worker    int
	Workers   int
	Deadline  time.Time
	Res       *Result
	distinct  map[uint64]struct{}
	Known     []KnownFinding
	ReplayDir string
	Scratch   string
	seenSig   map[string]int
	seenClass map[string]int
	minimised int
	MaxRuns   int
	startWall time.Time
}

const distinctCap = 200000

func (c *Ctx) Thorough() bool { return c.Tier == "thorough" }

func (c *Ctx) TimeLeft() bool {
	if c.MaxRuns > 0 && c.Res.Runs >= c.MaxRuns {
		return false
	}
	if c.MemoryHigh() {
		return false
	}
	return time.Now().Before(c.Deadline)
}

// MemoryHigh: runs that end in a simulated process stop (or cannot close their database after an injected fault) leave
// goroutines blocked inside the code under test, and with them their buffers. The worker stops early when it has
// grown too much; the driver starts a fresh process for the rest of the budget.
func (c *Ctx) MemoryHigh() bool {
	if rssMB() > int(envInt("VERIF_RSS_LIMIT_MB", 1500)) {
		c.Res.Counters["worker-stopped-early-for-memory"] = 1
		return true
	}
	return false
}

func rssMB() int {
	b, err := os.ReadFile("/proc/self/statm")
	if err != nil {
		return 0
	}
	f := strings.Fields(string(b))
	if len(f) < 2 {
		return 0
	}
	pages, _ := strconv.Atoi(f[1])
	return pages * os.Getpagesize() / (1 << 20)
}

func (c *Ctx) Count(name string, n int) {
	c.Res.Counters[name] += n
}

// CountMax keeps the maximum of a "max:" counter
func (c *Ctx) CountMax(name string, n int) {
	if v, ok := c.Res.Counters[name]; !ok || n > v {
		c.Res.Counters[name] = n
	}
}

func (c *Ctx) Distinct(h uint64) {
	if _, ok := c.distinct[h]; ok {
		return
	}
	if len(c.distinct) >= distinctCap {
		c.Res.DistinctCap = true
		return
	}
	c.distinct[h] = struct{}{}
}

func (c *Ctx) Sample(v any) {
	if len(c.Res.Samples) < 3 {
		c.Res.Samples = append(c.Res.Samples, v)
	}
}

// RunSeed derives the i-th run seed of this worker.
func (c *Ctx) RunSeed(i int) int64 {
	h := sha256.Sum256([]byte(fmt.Sprintf("%s/%s/%d/%d/%d", c.Harness, c.Mode, c.Seed, c.Worker, i)))
	return int64(binary.LittleEndian.Uint64(h[:8]) >> 1)
}

func hash64(parts ...any) uint64 {
	h := sha256.New()
	for _, p := range parts {
		fmt.Fprintf(h, "%v|", p)
	}
	return binary.LittleEndian.Uint64(h.Sum(nil)[:8])
}

// ---------------------------------------------------------------------------
// Known findings
// ---------------------------------------------------------------------------

type KnownFinding struct {
	ID       string `json:"id"`
	Property string `json:"property"`
	Status   string `json:"status"` // "open" (suppresses, prints KNOWN-FINDING) or "fixed" (suppresses nothing)
	SigRegex string `json:"sig_regex"`
	What     string `json:"what"`
	Commit   string `json:"commit,omitempty"`
	re       *regexp.Regexp
}

func loadKnown(path string) ([]KnownFinding, error) {
	b, err := os.ReadFile(path)
	if err != nil {
		if os.IsNotExist(err) {
			return nil, nil
		}
		return nil, err
	}
	var doc struct {
		Findings []KnownFinding `json:"findings"`
	}
	if err := json.Unmarshal(b, &doc); err != nil {
		return nil, err
	}
	for i := range doc.Findings {
		re, err := regexp.Compile(doc.Findings[i].SigRegex)
		if err != nil {
			return nil, fmt.Errorf("known finding %s: %w", doc.Findings[i].ID, err)
		}
		doc.Findings[i].re = re
	}
	return doc.Findings, nil
}

func (c *Ctx) matchKnown(property, sig string) string {
	for _, k := range c.Known {
		if k.Status != "open" || k.Property != property {
			continue
		}
		if k.re.MatchString(sig) {
			return k.ID
		}
	}
	return ""
}

// ---------------------------------------------------------------------------
// Replay files and reporting
// ---------------------------------------------------------------------------

type ReplayFile struct {
	Property  string          `json:"property"`
	Harness   string          `json:"harness"`
	Mode      string          `json:"mode"`
	Tier      string          `json:"tier"`
	RunSeed   int64           `json:"run_seed"`
	Sig       string          `json:"sig"`
	Detail    string          `json:"detail"`
	Case      json.RawMessage `json:"case"`
	Tape      []int           `json:"tape"`
	Minimised bool            `json:"minimised"`
	Race      bool            `json:"race,omitempty"`
	Trace     []string        `json:"trace,omitempty"` // human readable schedule / fault / event excerpt
}

var digits = regexp.MustCompile(`[0-9]+`)
var quoted = regexp.MustCompile(`'[^']*'`)
var hexes = regexp.MustCompile(`\[[0-9a-f ]+\]`)

var absPath = regexp.MustCompile(`/[A-Za-z0-9_.\-]+(/[A-Za-z0-9_.\-]+)+`)

// normErr strips paths and numbers from an error text so that it identifies the call-site chain only.
func normErr(err error) string {
	if err == nil {
		return "nil"
	}
	s := err.Error()
	s = quoted.ReplaceAllString(s, "'P'")
	s = absPath.ReplaceAllStringFunc(s, func(p string) string {
		parts := strings.Split(p, "/")
		last := parts[len(parts)-1]
		if len(parts) >= 2 {
			if par := parts[len(parts)-2]; strings.Contains(par, "sstable") || par == "wal" {
				return par + "/" + last
			}
		}
		return last
	})
	s = hexes.ReplaceAllString(s, "[X]")
	s = digits.ReplaceAllString(s, "N")
	s = strings.ReplaceAll(s, "\n", "; ")
	if len(s) > 300 {
		s = s[:300]
	}
	return s
}

// Report records a violation. The first occurrence of each signature gets a replay file.
// It returns true if the violation is new (not a known finding).
func (c *Ctx) Report(v Violation, rf *ReplayFile) bool {
	if v.Property == "" {
		v.Property = c.Property
	}
	v.Known = c.matchKnown(v.Property, v.Sig)
	key := v.Property + "|" + v.Sig
	c.seenSig[key]++
	if v.Known != "" {
		c.Count("known:"+v.Known, 1)
		if c.seenSig[key] > 1 {
			return false
		}
	} else {
		c.Count("violations", 1)
		if c.seenSig[key] > 1 {
			return true
		}
	}
	if rf != nil {
		rf.Property = v.Property
		rf.Sig = v.Sig
		rf.Detail = v.Detail
		rf.Harness = c.Harness
		rf.Race = simrt.RaceBuild
		rf.Mode = c.Mode
		rf.Tier = c.Tier
		name := fmt.Sprintf("%s-%s-%s-%016x.json", v.Property, c.Harness, c.Mode, hash64(v.Sig, rf.RunSeed))
		p := filepath.Join(c.ReplayDir, name)
		b, _ := json.MarshalIndent(rf, "", " ")
		_ = os.MkdirAll(c.ReplayDir, 0755)
		if err := os.WriteFile(p, b, 0644); err == nil {
			v.Replay = p
		}
	}
	c.Res.Violations = append(c.Res.Violations, v)
	return v.Known == ""
}

func mustJSON(v any) json.RawMessage {
	b, err := json.Marshal(v)
	if err != nil {
		panic(err)
	}
	return b
}

// ---------------------------------------------------------------------------
// Entry point
// ---------------------------------------------------------------------------

type harnessFunc func(c *Ctx)
type replayFunc func(c *Ctx, rf *ReplayFile) []Violation

var harnesses = map[string]harnessFunc{}
var replayers = map[string]replayFunc{}

func envInt(name string, def int64) int64 {
	if s := os.Getenv(name); s != "" {
		if v, err := strconv.ParseInt(s, 10, 64); err == nil {
			return v
		}
	}
	return def
}

func scratchBase() string {
	if d := os.Getenv("VERIF_SCRATCH"); d != "" {
		return d
	}
	return "/dev/shm"
}

func TestVerif(t *testing.T) {
	h := os.Getenv("VERIF_HARNESS")
	if h == "" {
		t.Skip("VERIF_HARNESS not set")
	}
	res := &Result{
		Property: os.Getenv("VERIF_PROPERTY"),
		Harness:  h,
		Mode:     os.Getenv("VERIF_MODE"),
		Tier:     os.Getenv("VERIF_TIER"),
		Seed:     envInt("VERIF_SEED", 1),
		Worker:   int(envInt("VERIF_WORKER", 0)),
		Counters: map[string]int{},
	}
	if res.Tier == "" {
		res.Tier = "quick"
	}
	budget := time.Duration(envInt("VERIF_BUDGET_S", 20)) * time.Second
	scratch, err := os.MkdirTemp(scratchBase(), "vsim")
	if err != nil {
		t.Fatal(err)
	}
	defer os.RemoveAll(scratch)
	c := &Ctx{
		T: t, Property: res.Property, Harness: h, Mode: res.Mode, Tier: res.Tier, Seed: res.Seed,
		Worker: res.Worker, Workers: int(envInt("VERIF_WORKERS", 1)),
		Deadline: time.Now().Add(budget), Res: res, distinct: map[uint64]struct{}{},
		ReplayDir: os.Getenv("VERIF_REPLAY_DIR"), Scratch: scratch, seenSig: map[string]int{}, seenClass: map[string]int{},
		MaxRuns: int(envInt("VERIF_MAX_RUNS", 0)), startWall: time.Now(),
	}
	if c.ReplayDir == "" {
		c.ReplayDir = filepath.Join(scratchBase(), "verif-replays")
	}
	known, err := loadKnown(os.Getenv("VERIF_KNOWN"))
	if err != nil {
		res.Infra = "known findings: " + err.Error()
	}
	c.Known = known
	start := time.Now()
	c.startWatchdog()

	if rp := os.Getenv("VERIF_REPLAY"); rp != "" {
		b, err := os.ReadFile(rp)
		if err != nil {
			t.Fatal(err)
		}
		var rf ReplayFile
		if err := json.Unmarshal(b, &rf); err != nil {
			t.Fatal(err)
		}
		fn := replayers[rf.Harness]
		if fn == nil {
			t.Fatalf("no replayer for %s", rf.Harness)
		}
		c.Harness, c.Mode, c.Tier, c.Property = rf.Harness, rf.Mode, rf.Tier, rf.Property
		watch.mu.Lock()
		watch.replay, watch.began, watch.seed, watch.caseJSON = &rf, time.Now(), rf.RunSeed, rf.Case
		watch.mu.Unlock()
		vs := fn(c, &rf)
		watch.mu.Lock()
		watch.began = time.Time{}
		watch.mu.Unlock()
		same := false
		for _, v := range vs {
			fmt.Printf("REPLAY-VIOLATION property=%s sig=%s\n%s\n", v.Property, v.Sig, v.Detail)
			if v.Sig == rf.Sig {
				same = true
			}
		}
		if same {
			fmt.Printf("REPLAY-RESULT reproduced sig=%s\n", rf.Sig)
		} else {
			fmt.Printf("REPLAY-RESULT not-reproduced expected=%s got=%d violations\n", rf.Sig, len(vs))
		}
		return
	}

	fn := harnesses[h]
	if fn == nil {
		res.Infra = "unknown harness " + h
	} else if res.Infra == "" {
		func() {
			defer func() {
				if r := recover(); r != nil {
					res.Infra = fmt.Sprintf("harness panic: %v", r)
					if os.Getenv("VERIF_DEBUG") != "" {
						panic(r)
					}
				}
			}()
			fn(c)
		}()
	}
	watch.mu.Lock()
	watch.began = time.Time{}
	watch.mu.Unlock()
	if watch.curPath != "" {
		_ = os.Remove(watch.curPath)
	}
	simrt.Deactivate()
	res.WallS = time.Since(start).Seconds()
	for hsh := range c.distinct {
		res.Distinct = append(res.Distinct, hsh)
	}
	sort.Slice(res.Distinct, func(i, j int) bool { return res.Distinct[i] < res.Distinct[j] })
	out := os.Getenv("VERIF_OUT")
	b, _ := json.Marshal(res)
	if out != "" {
		if err := os.WriteFile(out, b, 0644); err != nil {
			t.Fatal(err)
		}
	} else {
		res.Distinct = nil
		b, _ = json.MarshalIndent(res, "", " ")
		fmt.Println(string(b))
	}
}

// ---------------------------------------------------------------------------
// Generic shrinking helper
// ---------------------------------------------------------------------------

// shrinkLoop repeatedly applies candidate reductions while fails() keeps returning the wanted signature class.
// candidates returns a list of reduced variants of the current value; fails reports whether the variant still fails.
func shrinkLoop[T any](cur T, candidates func(T) []T, fails func(T) bool, deadline time.Time) T {
	for {
		progressed := false
		for _, cand := range candidates(cur) {
			if time.Now().After(deadline) {
				return cur
			}
			if fails(cand) {
				cur = cand
				progressed = true
				break
			}
		}
		if !progressed {
			return cur
		}
	}
}

func sigClass(sig string) string {
	if i := strings.Index(sig, "|"); i >= 0 {
		// class|site
		rest := sig[i+1:]
		if j := strings.Index(rest, "|"); j >= 0 {
			return sig[:i+1+j]
		}
	}
	return sig
}

// ---------------------------------------------------------------------------
// Small helpers shared by harnesses
// ---------------------------------------------------------------------------

func pick[T any](r *rand.Rand, xs ...T) T { return xs[r.Intn(len(xs))] }

func freshDir(c *Ctx, name string) string {
	if c.oddNames {
		name += " [a-c]\\q?%#*-*"
	}
	d, err := os.MkdirTemp(c.Scratch, name)
	if err != nil {
		panic(err)
	}
	return d
}

// ---------------------------------------------------------------------------
// Race detector reports (race builds only): GORACE=log_path=<prefix> makes the
// runtime append reports to <prefix>.<pid>; after each simulated run the
// harness reads what was added and attributes it to that run.
// ---------------------------------------------------------------------------

var raceLogOff int64

func raceLogPath() string {
	for _, kv := range strings.Fields(os.Getenv("GORACE")) {
		if strings.HasPrefix(kv, "log_path=") {
			return fmt.Sprintf("%s.%d", strings.TrimPrefix(kv, "log_path="), os.Getpid())
		}
	}
	return ""
}

// raceDelta returns the race detector output produced since the last call.
func raceDelta() string {
	p := raceLogPath()
	if p == "" {
		return ""
	}
	f, err := os.Open(p)
	if err != nil {
		return ""
	}
	defer f.Close()
	fi, err := f.Stat()
	if err != nil || fi.Size() <= raceLogOff {
		return ""
	}
	buf := make([]byte, fi.Size()-raceLogOff)
	n, _ := f.ReadAt(buf, raceLogOff)
	raceLogOff += int64(n)
	return string(buf[:n])
}

var frameRe = regexp.MustCompile(`^\s+([A-Za-z0-9_./\-]+(\.\([^)]*\))?\.[A-Za-z0-9_.\[\]…,* ]+)\(`)

// raceSigs turns race reports into signatures "data-race|<top frame 1>|<top frame 2>" (frames inside go-sstables preferred).
func raceSigs(text string) (sigs []string, details []string) {
	reports := strings.Split(text, "WARNING: DATA RACE")
	for _, rep := range reports[1:] {
		lines := strings.Split(rep, "\n")
		var tops []string
		for i := 0; i < len(lines); i++ {
			l := lines[i]
			if strings.Contains(l, " by goroutine ") || strings.Contains(l, " by main goroutine") {
				if !(strings.HasPrefix(l, "Read at") || strings.HasPrefix(l, "Write at") || strings.HasPrefix(l, "Previous read at") || strings.HasPrefix(l, "Previous write at")) {
					continue
				}
				// collect frames until an empty line; prefer the first frame inside the repository
				best := ""
				for j := i + 1; j < len(lines) && strings.TrimSpace(lines[j]) != ""; j++ {
					if m := frameRe.FindStringSubmatch(lines[j]); m != nil {
						fn := m[1]
						if best == "" {
							best = fn
						}
						if strings.Contains(fn, "go-sstables") {
							best = fn
							break
						}
					}
				}
				if best != "" {
					if k := strings.LastIndex(best, "go-sstables/"); k >= 0 {
						best = best[k+len("go-sstables/"):]
					}
					tops = append(tops, best)
				}
			}
		}
		sort.Strings(tops)
		sig := "data-race|" + strings.Join(tops, "|")
		sigs = append(sigs, sig)
		d := rep
		if len(d) > 2500 {
			d = d[:2500]
		}
		details = append(details, "WARNING: DATA RACE"+d)
	}
	return
}

// tapeFor returns the tape a replay file asks for: the recorded (possibly minimised) choices, or - when none were
// recorded (race-detector runs) - the generator seeded like the original run.
func tapeFor(rf *ReplayFile) *simrt.Tape {
	if len(rf.Tape) == 0 && !rf.Minimised {
		t := simrt.NewTape(rf.RunSeed)
		t.NoRec = simrt.RaceBuild
		return t
	}
	return simrt.ReplayTape(rf.Tape)
}

// runBubble runs f in a synctest bubble on a helper goroutine. When the race detector has reported a race inside
// the bubble, testing makes synctest.Test end the calling goroutine with runtime.Goexit; running it on a helper
// goroutine keeps the harness alive. A panic of the bubble (e.g. its end-of-bubble deadlock panic) is re-raised here.
func runBubble(t *testing.T, f func(t *testing.T)) {
	var pv any
	done := make(chan struct{})
	go func() {
		defer close(done)
		defer func() { pv = recover() }()
		synctest.Test(t, f)
	}()
	<-done
	if pv != nil {
		panic(pv)
	}
}

// RunHash records a digest of one run's complete event log (only when VERIF_RUNHASH is set).
func (c *Ctx) RunHash(trace []simrt.Event, extra ...any) {
	if os.Getenv("VERIF_RUNHASH") == "" {
		return
	}
	h := sha256.New()
	for _, e := range trace {
		fmt.Fprintf(h, "%d|%d|%s|%s|%s|%s|%d|%d|%x|%s\n", e.Seq, e.Task, e.TName, e.Kind, e.Path, e.Path2, e.Off, e.N, sha256.Sum256(e.Data), e.Note)
	}
	for _, x := range extra {
		fmt.Fprintf(h, "%v|", x)
	}
	c.Res.RunHashes = append(c.Res.RunHashes, fmt.Sprintf("%x", h.Sum(nil)[:10]))
}

// safely runs f and reports whether it panicked.
// libPanic runs f and reports a panic that was raised by go-sstables code (a frame of the library is on the panicking
// stack): in a fault-free arm such a panic on valid input is a violation of the property being decided. A panic of the
// harness itself is passed on (infrastructure trouble).
func libPanic(f func()) (msg string) {
	defer func() {
		if r := recover(); r != nil {
			st := string(debug.Stack())
			// frames between the panic and this recover: look for the library below runtime.gopanic
			if i := strings.Index(st, "panic("); i >= 0 && strings.Contains(st[i:], "github.com/thomasjungblut/go-sstables/") {
				msg = fmt.Sprintf("panic: %v", r)
				return
			}
			panic(r)
		}
	}()
	f()
	return ""
}

func safely(f func()) (panicked bool) {
	defer func() {
		if r := recover(); r != nil {
			panicked = true
		}
	}()
	f()
	return false
}

// oddCmp orders byte strings exactly as bytes.Compare does but answers with other magnitudes: the Comparator contract
// (< 0, == 0, > 0) fixes the sign only. Kind 0 is the plain byte comparator, 1 multiplies by seven, 2 answers with the
// difference of the first differing bytes (or of the lengths).
type oddCmp struct{ kind int }

func (o oddCmp) Compare(a, b []byte) int {
	switch o.kind {
	case 1:
		return 7 * bytes.Compare(a, b)
	case 2:
		for i := 0; i < len(a) && i < len(b); i++ {
			if a[i] != b[i] {
				return int(a[i]) - int(b[i])
			}
		}
		return len(a) - len(b)
	}
	return bytes.Compare(a, b)
}

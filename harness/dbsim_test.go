package harness

import (
	"encoding/json"
	"fmt"
	"math/rand"
	"os"
	"path/filepath"
	"regexp"
	"sort"
	"strings"
	"time"

	"verifsim/simrt"
)

// dbsim (C01, C06 lineage mode, C19 resources mode): one client against SimpleDB
// across several sessions with differing options, the real flusher and
// compactor goroutines interleaved by the seeded scheduler; every Get is
// compared with a reference map, and no flush / compaction may fail.

func init() {
	harnesses["dbsim"] = dbsimMain
	replayers["dbsim"] = dbsimReplay
}

func dbsimGen(r *rand.Rand, mode string, thorough bool) dbCase {
	nkeys := 3 + r.Intn(6)
	if thorough && r.Intn(3) == 0 {
		nkeys = 8 + r.Intn(16)
	}
	c := dbCase{Keys: genKeys(r, nkeys)}
	nsess := 1 + r.Intn(3)
	// backlog shape: a session without compactions and with a tiny memstore leaves dozens of small tables behind
	// (far more than any file threshold), the next session compacts them in one cycle
	backlog := mode != "resources" && r.Intn(8) == 0
	if backlog && nsess < 2 {
		nsess = 2
	}
	for s := 0; s < nsess; s++ {
		opts := genOpts(r)
		nops := 10 + r.Intn(50)
		if thorough {
			nops = 20 + r.Intn(200)
		}
		getFrac, delFrac := 25, 20
		if mode == "" && r.Intn(6) == 0 {
			opts.Async = true // the answers must not depend on the WAL flavour either
			opts.DirectIOWAL = r.Intn(3) == 0
		}
		if mode == "lineage" {
			// build a table stack: small memstore, many flushes, tombstones over older live values,
			// compaction settings that select subsets not starting at the oldest table
			opts.Memstore = pick(r, uint64(64), 64, 128, 256)
			opts.Compactions = true
			opts.Threshold = pick(r, 0, 1, 1, 2)
			opts.MaxSize = pick(r, uint64(150), 200, 300, 400, 600, 1024)
			opts.Ratio = pick(r, float32(0.2), 0.5, 1, 1, 1)
			delFrac = 30
		}
		if backlog {
			if s == 0 {
				opts.Compactions = false
				opts.Memstore = 64
				nops = 50 + r.Intn(40)
				getFrac = 5
			} else {
				opts.Compactions = true
				if r.Intn(2) == 0 {
					opts.MaxSize = 5 << 30
				}
			}
		}
		if mode == "resources" {
			opts.Memstore = pick(r, uint64(64), 128, 256)
			opts.Compactions = r.Intn(4) != 0 // Close must also end everything when no compactor was configured
			opts.Threshold = pick(r, 1, 2, 3)
			nops = 60 + r.Intn(200)
		}
		var prog []dbOp
		if s > 0 {
			for k := 0; k < nkeys; k++ { // full sweep after every reopen
				prog = append(prog, dbOp{Kind: "get", Key: k})
			}
		}
		prog = append(prog, genProgram(r, nkeys, nops, getFrac, delFrac)...)
		if r.Intn(5) == 0 && len(prog) > 2 {
			// a single very large value (far beyond the memstore limit and the buffers)
			prog[len(prog)/2] = dbOp{Kind: "put", Key: r.Intn(nkeys), ValLen: pick(r, 5000, 50000, 300000)}
		}
		if mode == "lineage" && opts.MaxSize < 1<<20 && r.Intn(2) == 0 {
			// one big early value so that the oldest table exceeds the size limit
			prog = append([]dbOp{{Kind: "put", Key: 0, ValLen: int(opts.MaxSize) + 100}, {Kind: "put", Key: 1 % nkeys, ValLen: 40}}, prog...)
		}
		if mode == "lineage" && r.Intn(3) == 0 {
			// deletes of the empty key: its tombstone sorts in front of every table it is flushed into
			for n := 1 + r.Intn(3); n > 0; n-- {
				at := r.Intn(len(prog) + 1)
				prog = append(prog[:at], append([]dbOp{{Kind: "delempty"}}, prog[at:]...)...)
			}
		}
		for k := 0; k < nkeys; k++ { // and a sweep at the end
			prog = append(prog, dbOp{Kind: "get", Key: k})
		}
		knobs := genKnobs(r)
		if mode == "lineage" || mode == "resources" {
			knobs.Advance = pick(r, 1, 2, 4)
		}
		knobs.UnlockYield = r.Intn(4) == 0
		c.Sessions = append(c.Sessions, dbSession{Opts: opts, Clients: [][]dbOp{prog}, Knobs: knobs, RelPath: mode != "resources" && r.Intn(6) == 0, Symlink: mode != "resources" && r.Intn(8) == 0, EarlyClose: r.Intn(8) == 0})
	}
	c.OddName = r.Intn(8) == 0
	return c
}

type dbViolation struct {
	sig, detail string
}

type dbsimOutcome struct {
	vs                      []dbViolation
	steps                   int
	simTime                 time.Duration
	pickHash                uint64
	tasks                   int
	compacted               int
	flushed                 int
	partial                 int
	cycles                  int
	maxSel                  int
	tablesMax               int
	trace                   []simrt.Event
	hist                    []*opRec
	maxHandles, maxMappings int
}

// runDBCase executes the case and evaluates the map oracle.
func runDBCase(c *Ctx, dc dbCase, tape *simrt.Tape, mode string) dbsimOutcome {
	c.oddNames = dc.OddName
	dir := freshDir(c, "db")
	defer os.RemoveAll(dir)
	r := newDBRunner(c.T, dir, tape, dc.Keys)
	defer simrt.Deactivate()
	defer r.w.ReleaseAll()
	var out dbsimOutcome
	model := map[string]string{}
	add := func(sig, detail string) {
		out.vs = append(out.vs, dbViolation{sig, detail})
	}
	histPos := 0
	for si, s := range dc.Sessions {
		res := r.runSession(si, s)
		out.steps += res.Run.Steps
		out.simTime += res.Run.SimTime
		out.pickHash = out.pickHash*31 + res.Run.PickHash
		out.tasks += res.Run.Tasks
		if res.MaxHandles > out.maxHandles {
			out.maxHandles = res.MaxHandles
		}
		if res.MaxMappings > out.maxMappings {
			out.maxMappings = res.MaxMappings
		}
		// oracle over this session's operations, in order (single client)
		for ; histPos < len(r.hist); histPos++ {
			op := r.hist[histPos]
			if op.Ret == 0 {
				continue
			}
			if op.Err != "" {
				add("api-error|"+op.Kind+":"+normErr(fmt.Errorf("%s", op.Err)), fmt.Sprintf("session %d: %s(%q) returned error %s", si, op.Kind, op.Key, op.Err))
				continue
			}
			switch op.Kind {
			case "put":
				model[op.Key] = op.Val
			case "del":
				delete(model, op.Key)
			case "get":
				want, ok := model[op.Key]
				if ok != op.Found || (ok && want != op.Val) {
					kind := "stale-or-wrong-value"
					if !ok && op.Found {
						kind = "deleted-or-absent-key-readable"
					} else if ok && !op.Found {
						kind = "present-key-not-found"
					}
					add("wrong-read|"+kind, fmt.Sprintf("session %d op #%d: Get(%q) = (%q, found=%v), reference map says (%q, present=%v)", si, op.ID, op.Key, head([]byte(op.Val)), op.Found, head([]byte(want)), ok))
				}
			}
		}
		if res.OpenErr != nil {
			add("open-error|"+normErr(res.OpenErr), fmt.Sprintf("session %d: Open failed: %v", si, res.OpenErr))
			break
		}
		if len(res.Stopped) > 0 {
			add("process-stopped|"+normErr(fmt.Errorf("%s", firstLine(res.Stopped[0]))), fmt.Sprintf("session %d: a background task stopped the process: %s", si, res.Stopped[0]))
			break
		}
		if res.SchedErr != nil {
			add("liveness|"+res.SchedErr.Error(), fmt.Sprintf("session %d: %v; tasks: %v", si, res.SchedErr, res.TasksLeft))
			break
		}
		if res.CloseErr != nil {
			add("close-error|"+normErr(res.CloseErr), fmt.Sprintf("session %d: Close failed: %v", si, res.CloseErr))
			break
		}
		if mode == "resources" {
			if len(res.Handles) > 0 || len(res.Mappings) > 0 || len(res.ProcFDs) > 0 || len(res.ProcMaps) > 0 {
				add("leak-after-close|handles-or-mappings", fmt.Sprintf("session %d: after Close returned, still open: ledger handles=%v mappings=%v; /proc/self/fd=%v /proc/self/maps=%v", si, res.Handles, res.Mappings, res.ProcFDs, res.ProcMaps))
			}
			if len(res.TasksLeft) > 0 {
				add("leak-after-close|goroutine", fmt.Sprintf("session %d: after Close returned, background tasks are still alive: %v", si, res.TasksLeft))
				break
			}
		}
	}
	out.trace = r.w.Trace()
	out.hist = r.hist
	if mode == "lineage" {
		cv, partial, cycles, maxSel := analyzeCompactions(out.trace)
		out.vs = append(out.vs, cv...)
		out.partial, out.cycles, out.maxSel = partial, cycles, maxSel
	}
	if mode == "resources" {
		rv, excess := analyzeResources(out.trace)
		out.vs = append(out.vs, rv...)
		out.tablesMax = excess
	}
	for _, l := range r.w.Logs {
		if strings.HasPrefix(l, "done compacting") {
			out.compacted++
		}
		if strings.HasPrefix(l, "done flushing") {
			out.flushed++
		}
	}
	return out
}

func firstLine(s string) string {
	if i := strings.IndexByte(s, '\n'); i >= 0 {
		return s[:i]
	}
	return s
}

func dbsimShrinks(c dbCase) []dbCase {
	var out []dbCase
	// drop whole sessions
	for i := range c.Sessions {
		if len(c.Sessions) > 1 {
			d := c
			d.Sessions = append(append([]dbSession{}, c.Sessions[:i]...), c.Sessions[i+1:]...)
			out = append(out, d)
		}
	}
	// drop chunks of ops, then single ops
	for si := range c.Sessions {
		for ci := range c.Sessions[si].Clients {
			prog := c.Sessions[si].Clients[ci]
			for _, chunk := range []int{len(prog) / 2, len(prog) / 4, 8, 1} {
				if chunk < 1 {
					continue
				}
				for start := 0; start+chunk <= len(prog); start += chunk {
					d := cloneCase(c)
					d.Sessions[si].Clients[ci] = append(append([]dbOp{}, prog[:start]...), prog[start+chunk:]...)
					out = append(out, d)
				}
			}
		}
	}
	return out
}

func cloneCase(c dbCase) dbCase {
	b, _ := json.Marshal(c)
	var d dbCase
	_ = json.Unmarshal(b, &d)
	return d
}

func dbsimMain(c *Ctx) {
	for i := 0; c.TimeLeft(); i++ {
		seed := c.RunSeed(i)
		r := rand.New(rand.NewSource(seed))
		dc := dbsimGen(r, c.Mode, c.Thorough())
		tape := simrt.NewTape(seed)
		c.Begin(seed, dc)
		out := runDBCase(c, dc, tape, c.Mode)
		c.Res.Runs++
		c.RunHash(out.trace, out.pickHash, histDigest(out.hist))
		c.Res.Evaluations += len(out.hist)
		c.Res.SimSeconds += out.simTime.Seconds()
		c.Count("sched-steps", out.steps)
		c.Count("probe:compactions-completed", out.compacted)
		c.Count("probe:flushes-completed", out.flushed)
		c.Count("probe:compaction-selection-excluding-oldest-table", out.partial)
		c.CountMax("max:tables-merged-in-one-cycle", out.maxSel)
		if out.maxSel > 16 {
			c.Count("probe:cycles-merging-more-than-16-tables", 1)
		}
		c.Count("compaction-cycles-checked", out.cycles)
		if c.Mode == "resources" {
			if v, ok := c.Res.Counters["max:resource-use-minus-bound"]; !ok || out.tablesMax > v {
				c.Res.Counters["max:resource-use-minus-bound"] = out.tablesMax
			}
		}
		if out.compacted > 0 || out.flushed > 1 {
			c.Distinct(hash64("dbsim", out.pickHash, len(out.trace)))
		}
		if len(c.Res.Seeds) < 8 {
			c.Res.Seeds = append(c.Res.Seeds, seed)
		}
		if i < 2 {
			c.Sample(map[string]any{"run_seed": seed, "keys": len(dc.Keys), "sessions": summarizeSessions(dc), "sched_steps": out.steps, "flushes": out.flushed, "compactions": out.compacted})
		}
		seen := map[string]bool{}
		for _, v := range out.vs {
			if seen[v.sig] {
				continue
			}
			seen[v.sig] = true
			reportDB(c, "dbsim", dc, tape, seed, v, func(cand dbCase, tp *simrt.Tape) []dbViolation {
				return runDBCase(c, cand, tp, c.Mode).vs
			})
		}
	}
}

func summarizeSessions(dc dbCase) []map[string]any {
	var out []map[string]any
	for _, s := range dc.Sessions {
		n := 0
		for _, p := range s.Clients {
			n += len(p)
		}
		first := []dbOp{}
		if len(s.Clients) > 0 {
			first = s.Clients[0][:min(6, len(s.Clients[0]))]
		}
		out = append(out, map[string]any{"opts": s.Opts, "clients": len(s.Clients), "ops": n, "first_ops": first, "knobs": s.Knobs})
	}
	return out
}

// reportDB minimises (case, tape) for violation v and reports it.
func reportDB(c *Ctx, harness string, dc dbCase, tape *simrt.Tape, seed int64, v dbViolation, run func(dbCase, *simrt.Tape) []dbViolation) {
	type ct struct {
		c    dbCase
		tape []int
	}
	has := func(vs []dbViolation) (string, bool) {
		for _, x := range vs {
			if x.sig == v.sig {
				return x.detail, true
			}
		}
		return "", false
	}
	cur := ct{dc, append([]int{}, tape.Rec...)}
	known := c.matchKnown(c.Property, v.sig) != ""
	budget := 25 * time.Second
	if c.Thorough() {
		budget = 60 * time.Second
	}
	if simrt.RaceBuild || known || c.seenSig[c.Property+"|"+v.sig] > 0 || c.minimised >= 2 || c.seenClass[sigClass(v.sig)] > 0 {
		budget = 0
	} else {
		c.minimised++
	}
	c.seenClass[sigClass(v.sig)]++
	deadline := time.Now().Add(budget)
	cands := func(x ct) []ct {
		var out []ct
		// simplest schedule first: all-zero tape, then zeroed suffixes
		if len(x.tape) > 0 {
			out = append(out, ct{x.c, nil})
			for _, cut := range []int{len(x.tape) / 2, len(x.tape) * 3 / 4, len(x.tape) * 7 / 8} {
				if cut > 0 && cut < len(x.tape) {
					out = append(out, ct{x.c, x.tape[:cut]})
				}
			}
		}
		for _, sc := range dbsimShrinks(x.c) {
			out = append(out, ct{sc, x.tape})
		}
		return out
	}
	if budget > 0 {
		cur = shrinkLoop(cur, cands, func(x ct) bool {
			_, ok := has(run(x.c, simrt.ReplayTape(x.tape)))
			return ok
		}, deadline)
	}
	detail := v.detail
	if budget > 0 {
		vs := run(cur.c, simrt.ReplayTape(cur.tape))
		if d, ok := has(vs); ok {
			detail = d
		} else {
			cur = ct{dc, append([]int{}, tape.Rec...)} // fall back to the original, which must replay
		}
	}
	if len(c.Res.Violations) >= 40 {
		c.Count("violations-not-listed-beyond-40", 1)
		return
	}
	if simrt.RaceBuild {
		cur.tape = nil // not recorded: the replay re-derives the schedule from the run seed
	}
	c.Report(Violation{Sig: v.sig, Detail: detail}, &ReplayFile{RunSeed: seed, Case: mustJSON(cur.c), Tape: cur.tape, Minimised: budget > 0})
}

func dbsimReplay(c *Ctx, rf *ReplayFile) []Violation {
	var dc dbCase
	if err := json.Unmarshal(rf.Case, &dc); err != nil {
		panic(err)
	}
	var out []Violation
	for _, v := range runDBCase(c, dc, tapeFor(rf), rf.Mode).vs {
		out = append(out, Violation{Property: rf.Property, Sig: v.sig, Detail: v.detail})
	}
	return out
}

var rootTableRe = regexp.MustCompile(`^sstable_[0-9]+$`)

// analyzeCompactions checks, for every compaction cycle of the trace, that the selected tables form a gap-free
// run of the live tables in age order and that the merged table takes the run's place in that order.
func analyzeCompactions(trace []simrt.Event) (vs []dbViolation, partial, cycles, maxSel int) {
	live := map[string]bool{}
	selectedBy := map[string][]string{} // compaction dir -> selected base names
	for _, e := range trace {
		switch e.Kind {
		case simrt.EvMkdir:
			if rootTableRe.MatchString(e.Path) {
				live[e.Path] = true
			}
		case simrt.EvRmdir:
			delete(live, e.Path)
		case simrt.EvRename:
			delete(live, e.Path)
			if rootTableRe.MatchString(e.Path2) {
				live[e.Path2] = true
			}
			if sel, ok := selectedBy[e.Path]; ok && len(sel) > 0 {
				// the merged table must take the place of the selected run in the age order: every live table that was
				// not selected stays on the side of the run it was on (which slot inside the run is used is the
				// implementation's business)
				insel := map[string]bool{}
				for _, t := range sel {
					insel[t] = true
				}
				var others []string
				for t := range live {
					if !insel[t] && t != e.Path2 {
						others = append(others, t)
					}
				}
				sort.Strings(others)
				for _, t := range others {
					if (t < sel[0]) != (t < e.Path2) {
						vs = append(vs, dbViolation{"compaction|merged-table-out-of-age-order", fmt.Sprintf("merged table %s was installed as %s, which moves it across the unselected table %s (selected run %v)", e.Path, e.Path2, t, sel)})
						break
					}
				}
			}
		case simrt.EvLog:
			if !strings.HasPrefix(e.Note, "starting compaction of") {
				continue
			}
			// "starting compaction of %d files in %v with %v"
			i := strings.Index(e.Note, " in ")
			j := strings.Index(e.Note, " with ")
			if i < 0 || j < 0 {
				continue
			}
			cdir := filepath.Base(strings.TrimSpace(e.Note[i+4 : j]))
			var sel []string
			for _, p := range strings.Split(strings.TrimSpace(e.Note[j+6:]), ",") {
				sel = append(sel, filepath.Base(strings.TrimSpace(p)))
			}
			sort.Strings(sel)
			selectedBy[cdir] = sel
			cycles++
			maxSel = max(maxSel, len(sel))
			var all []string
			for t := range live {
				all = append(all, t)
			}
			sort.Strings(all)
			start := -1
			for k, t := range all {
				if t == sel[0] {
					start = k
				}
			}
			ok := start >= 0 && start+len(sel) <= len(all)
			if ok {
				for k := range sel {
					if all[start+k] != sel[k] {
						ok = false
					}
				}
			}
			if !ok {
				vs = append(vs, dbViolation{"compaction|selection-not-a-gap-free-run", fmt.Sprintf("compaction selected %v, live tables in age order are %v", sel, all)})
			} else if start > 0 {
				partial++
			}
		}
	}
	return
}

// analyzeResources replays open/close and mmap/munmap events and checks that descriptors plus mappings stay
// within 4 x (table folders on disk) + 16 at every instant (loose constants: only growth with the number of
// flush / compaction cycles can cross them).
func analyzeResources(trace []simrt.Event) (vs []dbViolation, maxExcess int) {
	dirs := map[string]bool{}
	handles, maps := 0, 0
	maxExcess = -1 << 30
	for _, e := range trace {
		switch e.Kind {
		case simrt.EvMkdir:
			if !strings.Contains(e.Path, "/") && strings.Contains(e.Path, "sstable") {
				dirs[e.Path] = true
			}
		case simrt.EvRmdir:
			delete(dirs, e.Path)
		case simrt.EvRename:
			if dirs[e.Path] {
				delete(dirs, e.Path)
				dirs[e.Path2] = true
			}
		case simrt.EvOpen:
			handles++
		case simrt.EvClose:
			handles--
		case "mmap":
			maps++
		case "munmap":
			maps--
		case simrt.EvMark:
			if e.Note == "open" { // a new session starts with nothing open
				handles, maps = 0, 0
			}
		}
		if x := handles + maps - (4*len(dirs) + 16); x > maxExcess {
			maxExcess = x
			if x > 0 {
				vs = append(vs, dbViolation{"resources|unbounded-while-open", fmt.Sprintf("at event #%d: %d descriptors + %d mappings open with %d table folders on disk (bound 4*tables+16)", e.Seq, handles, maps, len(dirs))})
				return
			}
		}
	}
	return
}

func histDigest(h []*opRec) string {
	var sb strings.Builder
	for _, op := range h {
		fmt.Fprintf(&sb, "%d:%s:%s:%s:%v:%d:%d:%s;", op.ID, op.Kind, op.Key, op.Val, op.Found, op.Inv, op.Ret, op.Err)
	}
	return fmt.Sprintf("%x", hash64(sb.String()))
}

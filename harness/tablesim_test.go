package harness

import (
	"bytes"
	"encoding/json"
	"errors"
	"fmt"
	"math/rand"
	"os"
	"path/filepath"
	"sort"
	"strings"
	"time"

	"github.com/thomasjungblut/go-sstables/recordio"
	"github.com/thomasjungblut/go-sstables/skiplist"
	"github.com/thomasjungblut/go-sstables/sstables"
	"verifsim/simrt"
)

// tablesim: SSTables on the simulated disk.
//   mode "control" (C03): generated tables through the stream writer or the skip-list writer, read back through
//     each index loader; oracle = sorted map; the disk delivers sequential reads in tape-chosen chunks.
//   mode "damage" (C09): every byte of data.rio x replacement values, every truncation length, swapped records;
//     before opening (default verify-on-load and verify-on-read readers) and under a live verify-on-read reader;
//     oracle = never (value != written and err == nil).

func init() {
	harnesses["tablesim"] = tablesimMain
	replayers["tablesim"] = tablesimReplay
}

type tblCase struct {
	NKeys     int    `json:"nkeys"`
	KeyShape  int    `json:"key_shape"` // 0: 4-byte big endian ints (works with the map loader), 1: variable ascii, 2: binary incl. marker bytes and an empty first key
	ValShape  int    `json:"val_shape"` // 0 mixed incl nil/empty, 1 non-empty only, 2 large last entry, 3 non-empty with a few nil/empty
	DataComp  int    `json:"data_comp"`
	IndexComp int    `json:"index_comp"`
	Bloom     uint64 `json:"bloom_n"`
	WriteBuf  int    `json:"write_buf"`
	ReadBuf   int    `json:"read_buf"`
	SkipList  bool   `json:"skiplist_writer,omitempty"`
	Loader    int    `json:"loader"` // 0 slice, 1 skiplist, 2 map (4-byte keys only), 3 disk
	ReadChunk int    `json:"read_chunk"`
	Seed      int64  `json:"seed"`
	// reader options of the control arm: 0 default (verify on load), 1 verify on read too, 2 verify on read only, 3 none
	ReadVerify int `json:"read_verify,omitempty"`
	// bloom false positive probability in 1/10000 (0 = library default) and the explicit EnableBloomFilter option
	// one value is replaced by a non-empty value whose CRC-64 is zero (2f f4 42): the stored checksum of such a value
	// must still protect it
	ZeroCRC     bool `json:"zero_crc_value,omitempty"`
	BloomFp     int  `json:"bloom_fp,omitempty"`
	BloomEnable bool `json:"bloom_enable,omitempty"`
}

type kv struct {
	k, v []byte
}

func tblPairs(c tblCase) []kv {
	r := rand.New(rand.NewSource(c.Seed))
	set := map[string]bool{}
	var keys [][]byte
	for len(keys) < c.NKeys {
		var k []byte
		switch c.KeyShape {
		case 0:
			k = make([]byte, 4)
			x := uint32(r.Intn(1 << 16))
			k[0], k[1], k[2], k[3] = byte(x>>24), byte(x>>16), byte(x>>8), byte(x)
		case 1:
			n := 1 + r.Intn(12)
			if r.Intn(10) == 0 {
				n = 100 + r.Intn(200)
			}
			if r.Intn(25) == 0 {
				n = pick(r, 127, 128, 129, 255, 256, 16383, 16384) // varint boundaries of the key length
			}
			k = make([]byte, n)
			for i := range k {
				k[i] = byte('a' + r.Intn(4))
			}
		default:
			n := r.Intn(6)
			if len(keys) == 0 {
				n = 0 // the empty key
			}
			k = make([]byte, n)
			for i := range k {
				k[i] = pick(r, byte(0), 0x91, 0x8d, 0x4c, 0xff, 'x')
			}
		}
		if set[string(k)] {
			if c.KeyShape == 2 && len(set) > 200 {
				break
			}
			continue
		}
		set[string(k)] = true
		keys = append(keys, k)
	}
	sort.Slice(keys, func(i, j int) bool { return bytes.Compare(keys[i], keys[j]) < 0 })
	var out []kv
	for i, k := range keys {
		var v []byte
		n := pick(r, 1, 2, 7, 30, 100, 300)
		if r.Intn(30) == 0 {
			n = pick(r, 127, 128, 129, 255, 256, 16383, 16384, 16385, 65535, 65536) // varint / 16-bit boundaries
		}
		v = make([]byte, n)
		r.Read(v)
		switch c.ValShape {
		case 0:
			switch r.Intn(8) {
			case 0:
				v = nil
			case 1:
				v = []byte{}
			case 2:
				m := recordio.MagicNumberSeparatorLongBytes
				for j := range v {
					v[j] = m[j%3]
				}
			case 3:
				v[len(v)-1] = 0x91
			}
		case 2:
			if i == len(keys)-1 {
				v = make([]byte, 20000+r.Intn(5000))
				r.Read(v)
			}
		case 3:
			// non-empty values with a few empty / nil ones in between (tombstones of a database): the damage oracle
			// judges the keys with non-empty values only, the empty ones are there to be walked over
			if r.Intn(4) == 0 {
				// mostly empty rather than nil: a nil record has no payload at all, an empty one has the compressed form
				// of nothing (three bytes under LZW that one flipped bit turns into "one zero byte")
				v = pick(r, []byte(nil), []byte{}, []byte{}, []byte{})
			}
		}
		out = append(out, kv{k, v})
	}
	if c.ZeroCRC && len(out) > 0 {
		out[r.Intn(len(out))].v = []byte{0x2f, 0xf4, 0x42}
	}
	return out
}

func tblGen(r *rand.Rand, mode string, thorough bool) tblCase {
	c := tblCase{
		NKeys:      pick(r, 0, 1, 2, 3, 7, 20, 60, 150),
		KeyShape:   r.Intn(3),
		ValShape:   r.Intn(3),
		DataComp:   r.Intn(4),
		IndexComp:  r.Intn(4),
		Bloom:      pick(r, uint64(1), 10, 1000, 100000),
		WriteBuf:   pick(r, 64, 128, 512, 4096, 1<<20, 4<<20),
		ReadBuf:    pick(r, 64, 128, 512, 4096, 1<<20),
		SkipList:   r.Intn(4) == 0,
		Loader:     r.Intn(4),
		ReadChunk:  pick(r, 0, 0, 1, 5, 100),
		Seed:       r.Int63(),
		ReadVerify: pick(r, 0, 0, 1, 2, 3),
	}
	if thorough && r.Intn(4) == 0 {
		c.NKeys = pick(r, 500, 1000, 1024, 1025, 2000)
	}
	if r.Intn(40) == 0 {
		c.NKeys = pick(r, 1024, 1025)
	}
	if c.Loader == 2 {
		c.KeyShape = 0
	}
	if mode == "damage" {
		c.NKeys = 1 + r.Intn(6)
		if thorough {
			c.NKeys = 1 + r.Intn(12)
		}
		c.ValShape = pick(r, 1, 1, 3)
		if c.ValShape == 3 {
			c.NKeys += 2
		}
		if r.Intn(10) == 0 {
			c.NKeys = pick(r, 1024, 1025, 1500) // a table beyond a thousand records (positions and replacements are sampled)
		} else if r.Intn(6) == 0 {
			c.NKeys = pick(r, 65, 66, 67, 130, 131) // between the two: record counts around powers of two, not divisible by four
		}
		c.KeyShape = pick(r, 0, 1)
		c.Loader = pick(r, 0, 0, 1, 3) // the damage arm also reads through the skip-list and the disk index
		if c.KeyShape == 0 && r.Intn(4) == 0 {
			c.Loader = 2
		}
		c.SkipList = false
	}
	c.ZeroCRC = (mode == "damage" && r.Intn(3) == 0) || r.Intn(12) == 0
	c.BloomFp = pick(r, 0, 0, 3000, 100, 1)
	c.BloomEnable = r.Intn(3) == 0
	return c
}

func tblWrite(dir string, c tblCase, pairs []kv) error {
	opts := []sstables.WriterOption{
		sstables.WriteBasePath(dir),
		sstables.WithKeyComparator(skiplist.BytesComparator{}),
		sstables.DataCompressionType(c.DataComp),
		sstables.IndexCompressionType(c.IndexComp),
		sstables.BloomExpectedNumberOfElements(c.Bloom),
	}
	if c.BloomFp > 0 {
		opts = append(opts, sstables.BloomFalsePositiveProbability(float64(c.BloomFp)/10000))
	}
	if c.BloomEnable {
		opts = append(opts, sstables.EnableBloomFilter())
	}
	if c.SkipList {
		m := skiplist.NewSkipListMap[[]byte, []byte](skiplist.BytesComparator{})
		for _, p := range pairs {
			m.Insert(p.k, p.v)
		}
		w, err := sstables.NewSSTableSimpleWriter(opts...)
		if err != nil {
			return err
		}
		return w.WriteSkipListMap(m)
	}
	opts = append(opts, sstables.WriteBufferSizeBytes(c.WriteBuf))
	w, err := sstables.NewSSTableStreamWriter(opts...)
	if err != nil {
		return err
	}
	if err := w.Open(); err != nil {
		return err
	}
	for i, p := range pairs {
		if err := w.WriteNext(p.k, p.v); err != nil {
			return fmt.Errorf("WriteNext #%d: %w", i, err)
		}
	}
	return w.Close()
}

func tblLoader(c tblCase) sstables.ReadOption {
	switch c.Loader {
	case 1:
		return sstables.ReadIndexLoader(&sstables.SkipListIndexLoader{KeyComparator: skiplist.BytesComparator{}, ReadBufferSize: c.ReadBuf})
	case 2:
		return sstables.ReadIndexLoader(&sstables.MapKeyIndexLoader[[4]byte]{ReadBufferSize: c.ReadBuf, Mapper: &sstables.Byte4KeyMapper{}})
	case 3:
		return sstables.ReadIndexLoader(&sstables.DiskIndexLoader{})
	}
	return sstables.ReadIndexLoader(&sstables.SliceKeyIndexLoader{ReadBufferSize: c.ReadBuf})
}

var loaderNames = []string{"slice", "skiplist", "map", "disk"}

func valEq(got, want []byte) bool {
	// nil and empty are both stored without payload bytes; the table format keeps nil as nil and empty as empty
	if want == nil {
		return got == nil
	}
	return got != nil && bytes.Equal(got, want)
}

func drain(it sstables.SSTableIteratorI, max int) (out []kv, err error) {
	for {
		k, v, e := it.Next()
		if errors.Is(e, sstables.Done) {
			return out, nil
		}
		if e != nil {
			return out, e
		}
		out = append(out, kv{append([]byte{}, k...), v})
		if len(out) > max {
			return out, errors.New("iterator does not terminate")
		}
	}
}

func expectRange(pairs []kv, lo, hi []byte, useLo, useHi bool) []kv {
	var out []kv
	for _, p := range pairs {
		if useLo && bytes.Compare(p.k, lo) < 0 {
			continue
		}
		if useHi && bytes.Compare(p.k, hi) > 0 {
			continue
		}
		out = append(out, p)
	}
	return out
}

func sameKVs(got, want []kv) string {
	if len(got) != len(want) {
		return fmt.Sprintf("%d entries, want %d", len(got), len(want))
	}
	for i := range got {
		if !bytes.Equal(got[i].k, want[i].k) {
			return fmt.Sprintf("entry %d has key %x, want %x", i, headBytes(got[i].k, 8), headBytes(want[i].k, 8))
		}
		if !valEq(got[i].v, want[i].v) {
			return fmt.Sprintf("entry %d (key %x) has value %s, want %s", i, headBytes(got[i].k, 8), recDesc(got[i].v), recDesc(want[i].v))
		}
	}
	return ""
}

type tblV = dbViolation

func tblControl(c *Ctx, tc tblCase, tape *simrt.Tape) (vs []tblV, evals int) {
	dir := freshDir(c, "tbl")
	defer os.RemoveAll(dir)
	w := simrt.NewWorld(dir, tape)
	w.Record = false
	defer simrt.Deactivate()
	defer w.ReleaseAll()
	ln := loaderNames[tc.Loader]
	add := func(sig, detail string) { vs = append(vs, tblV{sig + "|" + ln, "[" + ln + " loader] " + detail}) }
	pairs := tblPairs(tc)
	if err := tblWrite(dir, tc, pairs); err != nil {
		add("writer-error|"+normErr(err), err.Error())
		return
	}
	w.ReadChunkMax = tc.ReadChunk
	ropts := []sstables.ReadOption{sstables.ReadBasePath(dir), sstables.ReadWithKeyComparator(skiplist.BytesComparator{}), sstables.ReadBufferSizeBytes(tc.ReadBuf), tblLoader(tc)}
	switch tc.ReadVerify {
	case 1:
		ropts = append(ropts, sstables.EnableHashCheckOnReads())
	case 2:
		ropts = append(ropts, sstables.SkipHashCheckOnLoad(), sstables.EnableHashCheckOnReads())
	case 3:
		ropts = append(ropts, sstables.SkipHashCheckOnLoad())
	}
	rd, err := sstables.NewSSTableReader(ropts...)
	if err != nil {
		add("reader-open-error|"+normErr(err), err.Error())
		return
	}
	defer rd.Close()
	// probes: all present keys (capped), absent neighbours, below min, above max
	r := rand.New(rand.NewSource(tc.Seed ^ 0x5bd1e995))
	var probes [][]byte
	for i, p := range pairs {
		if len(pairs) > 300 && i%(len(pairs)/300+1) != 0 && i != len(pairs)-1 && i != 0 {
			continue
		}
		probes = append(probes, p.k)
		probes = append(probes, append(append([]byte{}, p.k...), 0))
		if len(p.k) > 0 {
			q := append([]byte{}, p.k...)
			q[len(q)-1]--
			probes = append(probes, q)
		}
	}
	probes = append(probes, []byte{}, []byte{0}, []byte{0xff, 0xff, 0xff, 0xff, 0xff}, []byte("zzzz"))
	if tc.Loader == 2 {
		var p4 [][]byte
		for _, p := range probes {
			if len(p) == 4 {
				p4 = append(p4, p)
			}
		}
		p4 = append(p4, []byte{0, 0, 0, 0}, []byte{0xff, 0xff, 0xff, 0xff})
		probes = p4
	}
	want := map[string][]byte{}
	present := map[string]bool{}
	for _, p := range pairs {
		want[string(p.k)] = p.v
		present[string(p.k)] = true
	}
	for _, k := range probes {
		evals++
		Beat()
		has, err := rd.Contains(k)
		if err != nil {
			add("contains|error:"+normErr(err), fmt.Sprintf("Contains(%x): %v", headBytes(k, 8), err))
			return
		}
		if has != present[string(k)] {
			kind := "false-negative"
			if has {
				kind = "unwritten-key-found"
			}
			add("contains|"+kind, fmt.Sprintf("Contains(%x) = %v, written: %v", headBytes(k, 8), has, present[string(k)]))
			return
		}
		v, err := rd.Get(k)
		if present[string(k)] {
			if err != nil || !valEq(v, want[string(k)]) {
				add("get|wrong", fmt.Sprintf("Get(%x) = (%s, %v), written %s", headBytes(k, 8), recDesc(v), err, recDesc(want[string(k)])))
				return
			}
		} else if !errors.Is(err, sstables.NotFound) {
			add("get|unwritten-key-found", fmt.Sprintf("Get(%x) of an unwritten key = (%s, %v), want NotFound", headBytes(k, 8), recDesc(v), err))
			return
		}
	}
	max := len(pairs) + 5
	it, err := rd.Scan()
	if err == nil {
		var got []kv
		got, err = drain(it, max)
		if err == nil {
			if d := sameKVs(got, pairs); d != "" {
				add("scan|wrong", "Scan(): "+d)
				return
			}
		}
	}
	if err != nil {
		add("scan|error:"+normErr(err), "Scan(): "+err.Error())
		return
	}
	evals++
	Beat()
	// starting-at and range scans
	nb := 40
	if c.Thorough() {
		nb = 150
	}
	for i := 0; i < nb && len(probes) > 0; i++ {
		lo := probes[r.Intn(len(probes))]
		hi := probes[r.Intn(len(probes))]
		if i%5 == 0 {
			hi = lo
		}
		evals++
		Beat()
		it, err := rd.ScanStartingAt(lo)
		var got []kv
		if err == nil {
			got, err = drain(it, max)
		}
		if err != nil {
			add("scan-starting-at|error:"+normErr(err), fmt.Sprintf("ScanStartingAt(%x): %v", headBytes(lo, 8), err))
			return
		}
		if d := sameKVs(got, expectRange(pairs, lo, nil, true, false)); d != "" {
			add("scan-starting-at|wrong", fmt.Sprintf("ScanStartingAt(%x): %s", headBytes(lo, 8), d))
			return
		}
		it, err = rd.ScanRange(lo, hi)
		if bytes.Compare(lo, hi) > 0 {
			if err == nil {
				add("scan-range|inverted-bounds-accepted", fmt.Sprintf("ScanRange(%x, %x) with lower > upper returned no error", headBytes(lo, 8), headBytes(hi, 8)))
				return
			}
			continue
		}
		if err == nil {
			got, err = drain(it, max)
		}
		if err != nil {
			add("scan-range|error:"+normErr(err), fmt.Sprintf("ScanRange(%x, %x): %v", headBytes(lo, 8), headBytes(hi, 8), err))
			return
		}
		if d := sameKVs(got, expectRange(pairs, lo, hi, true, true)); d != "" {
			add("scan-range|wrong", fmt.Sprintf("ScanRange(%x, %x): %s", headBytes(lo, 8), headBytes(hi, 8), d))
			return
		}
	}
	if err := rd.Close(); err != nil {
		add("close-error|"+normErr(err), err.Error())
	}
	simrt.Deactivate()
	if h, m := w.OpenHandles(), w.OpenMappings(); len(h)+len(m) > 0 {
		add("leak|after-close", fmt.Sprintf("the reader was closed but still open: %v %v", h, m))
	}
	return
}

// ---------------- damage arm (C09) ----------------

// readEverything reads the table through every access path; returns a description of the first wrong value served without error.
// emptyTag starts the description of a violation that concerns a key written with an empty or nil value
const emptyTag = "[empty-value-key] "

func readEverything(rd sstables.SSTableReaderI, pairs []kv) string {
	want := map[string][]byte{}
	for _, p := range pairs {
		want[string(p.k)] = p.v
	}
	for _, p := range pairs {
		if len(p.v) == 0 {
			// empty and nil values carry no value checksum, but the record header (which states a payload size of zero)
			// is protected: such a key must still read as empty or nil
			if v, err := rd.Get(p.k); err == nil && len(v) != 0 {
				return emptyTag + fmt.Sprintf("Get(%x) = %s without error, written an empty value", headBytes(p.k, 8), recDesc(v))
			}
			continue
		}
		v, err := rd.Get(p.k)
		if err == nil && !bytes.Equal(v, p.v) {
			return fmt.Sprintf("Get(%x) = %s without error, written %s", headBytes(p.k, 8), recDesc(v), recDesc(p.v))
		}
	}
	check := func(name string, it sstables.SSTableIteratorI, err error) string {
		if err != nil {
			return ""
		}
		for n := 0; n < len(pairs)+5; n++ {
			k, v, e := it.Next()
			if e != nil {
				return "" // Done or an error: nothing wrong was served
			}
			w, ok := want[string(k)]
			if !ok {
				return fmt.Sprintf("%s returned key %x that was never written (value %s)", name, headBytes(k, 8), recDesc(v))
			}
			if len(w) == 0 && len(v) != 0 {
				return emptyTag + fmt.Sprintf("%s returned %s for key %x without error, written an empty value", name, recDesc(v), headBytes(k, 8))
			}
			if len(w) > 0 && !bytes.Equal(v, w) {
				return fmt.Sprintf("%s returned %s for key %x without error, written %s", name, recDesc(v), headBytes(k, 8), recDesc(w))
			}
		}
		return ""
	}
	it, err := rd.Scan()
	if d := check("Scan", it, err); d != "" {
		return d
	}
	it, err = rd.ScanStartingAt(pairs[0].k)
	if d := check("ScanStartingAt", it, err); d != "" {
		return d
	}
	it, err = rd.ScanRange(pairs[0].k, pairs[len(pairs)-1].k)
	return check("ScanRange", it, err)
}

func tblDamage(c *Ctx, tc tblCase, tape *simrt.Tape) (vs []tblV, evals int) {
	dir := freshDir(c, "tbl")
	defer os.RemoveAll(dir)
	add := func(sig, detail string) {
		for _, v := range vs {
			if v.sig == sig {
				return
			}
		}
		vs = append(vs, tblV{sig, detail})
	}
	pairs := tblPairs(tc)
	if len(pairs) == 0 {
		return
	}
	if err := tblWrite(dir, tc, pairs); err != nil {
		add("writer-error|"+normErr(err), err.Error())
		return
	}
	dataPath := filepath.Join(dir, sstables.DataFileName)
	orig, err := os.ReadFile(dataPath)
	if err != nil {
		panic(err)
	}
	w := simrt.NewWorld(dir, tape)
	w.Record = false
	defer simrt.Deactivate()
	defer w.ReleaseAll()
	open := func(onRead bool) (sstables.SSTableReaderI, error) {
		opts := []sstables.ReadOption{sstables.ReadBasePath(dir), sstables.ReadWithKeyComparator(skiplist.BytesComparator{}), sstables.ReadBufferSizeBytes(tc.ReadBuf), tblLoader(tc)}
		if onRead {
			// (the two options are independent of each other: either order)
			if tc.Seed%2 == 0 {
				opts = append(opts, sstables.SkipHashCheckOnLoad(), sstables.EnableHashCheckOnReads())
			} else {
				opts = append(opts, sstables.EnableHashCheckOnReads(), sstables.SkipHashCheckOnLoad())
			}
		}
		return sstables.NewSSTableReader(opts...)
	}
	try := func(buf []byte, what string) bool {
		if err := os.WriteFile(dataPath, buf, 0600); err != nil {
			panic(err)
		}
		for _, onRead := range []bool{false, true} {
			evals++
			Beat()
			mode := "verify-on-load"
			if onRead {
				mode = "verify-on-read"
			}
			var d string
			panicked := safely(func() {
				rd, err := open(onRead)
				if err != nil {
					return // detected when opening
				}
				defer rd.Close()
				d = readEverything(rd, pairs)
			})
			if panicked {
				// a panic serves no wrong value either; counted, not reported (no-panic is C18's statement, for concurrency)
				c.Count("probe:panic-on-damaged-table", 1)
				continue
			}
			if d != "" {
				sig := "damage-served-as-data|" + mode + "|" + whatKind(what)
				if strings.HasPrefix(d, emptyTag) {
					sig += "|empty-value-key"
				}
				add(sig, fmt.Sprintf("%s, %s: %s", what, mode, d))
				if strings.HasSuffix(sig, "|swapped|empty-value-key") {
					// (a recorded finding: the enumeration of this table goes on, so that it cannot hide anything else)
					continue
				}
				return false
			}
		}
		return true
	}
	buf := make([]byte, len(orig))
	repl := func(old byte) []byte {
		out := []byte{}
		for bit := 0; bit < 8; bit++ {
			out = append(out, old^(1<<bit))
		}
		for _, v := range []byte{0, 0xff, 0x91, 0x8d, 0x4c} {
			if v != old {
				out = append(out, v)
			}
		}
		return out
	}
	step := 1
	if !c.Thorough() && len(orig) > 1500 {
		step = len(orig) / 700
	}
	if c.Thorough() && len(orig) > 20000 {
		step = len(orig) / 5000 // a value of 64 KiB: exhaustive positions would take an hour for this one table
	}
	big := len(pairs) > 40
	head, tail := 64, 64 // the first and the last bytes of the file (file header, first and last record) are always visited
	if big {
		// every open of such a table validates hundreds of records and every read-back makes as many Gets:
		// sampled positions x 2 replacements
		head, tail = 24, 12
		step = len(orig)/30 + 1
		if len(pairs) > 200 {
			head, tail = 16, 8
			step = len(orig)/24 + 1
		}
		full := repl
		repl = func(old byte) []byte { return full(old)[:2] }
	}
	for pos := 0; pos < len(orig); pos++ {
		if step > 1 && pos%step != 0 && pos > head && pos < len(orig)-tail {
			continue
		}
		for _, v := range repl(orig[pos]) {
			copy(buf, orig)
			buf[pos] = v
			if !try(buf, fmt.Sprintf("byte-altered: data.rio offset %d of %d: %02x -> %02x", pos, len(orig), orig[pos], v)) {
				return
			}
		}
	}
	for L := 0; L < len(orig); L++ {
		if step > 1 && L%step != 0 {
			continue
		}
		if big && L%(step*3) != 0 {
			continue
		}
		if !try(orig[:L], fmt.Sprintf("truncated: data.rio cut to %d of %d bytes", L, len(orig))) {
			return
		}
	}
	// swapped records: exchange the byte ranges of two whole records of equal stored length, or adjacent records
	if offs := recordOffsets(dir, pairs); len(offs) >= 2 {
		for i := 0; i+1 < len(offs); i++ {
			if big && i >= 6 && i+4 < len(offs) {
				continue // the first and the last few pairs of a big table
			}
			a0, a1 := offs[i], offs[i+1]
			b1 := len(orig)
			if i+2 < len(offs) {
				b1 = offs[i+2]
			}
			sw := append([]byte{}, orig[:a0]...)
			sw = append(sw, orig[a1:b1]...)
			sw = append(sw, orig[a0:a1]...)
			sw = append(sw, orig[b1:]...)
			if !try(sw, fmt.Sprintf("swapped: records %d and %d of data.rio exchanged", i, i+1)) {
				return
			}
		}
	}
	// live damage under a verify-on-read reader (the mapping is shared: the open reader sees the change)
	if err := os.WriteFile(dataPath, orig, 0600); err != nil {
		panic(err)
	}
	rd, err := open(true)
	if err != nil {
		add("reader-open-error|"+normErr(err), err.Error())
		return
	}
	defer rd.Close()
	f, err := os.OpenFile(dataPath, os.O_RDWR, 0)
	if err != nil {
		panic(err)
	}
	defer f.Close()
	lstep := 1
	if !c.Thorough() || big {
		lstep = len(orig)/200 + 1
	}
	if big {
		lstep = len(orig)/20 + 1
	}
	for pos := 8; pos < len(orig); pos += lstep {
		for _, v := range []byte{orig[pos] ^ 1, orig[pos] ^ 0x80, 0x00, 0xff} {
			if v == orig[pos] {
				continue
			}
			if _, err := f.WriteAt([]byte{v}, int64(pos)); err != nil {
				panic(err)
			}
			evals++
			Beat()
			d := readEverything(rd, pairs)
			if _, err := f.WriteAt([]byte{orig[pos]}, int64(pos)); err != nil {
				panic(err)
			}
			if d != "" {
				sig := "damage-served-as-data|live-verify-on-read|byte-altered"
				if strings.HasPrefix(d, emptyTag) {
					sig += "|empty-value-key"
				}
				add(sig, fmt.Sprintf("byte at data.rio offset %d changed %02x -> %02x while a verify-on-read reader is open: %s", pos, orig[pos], v, d))
				return
			}
		}
	}
	return
}

func whatKind(what string) string {
	for i := 0; i < len(what); i++ {
		if what[i] == ':' {
			return what[:i]
		}
	}
	return what
}

// recordOffsets returns the data file offsets of the values in key order (from an intact reader's index file).
func recordOffsets(dir string, pairs []kv) []int {
	rd, err := recordio.NewMemoryMappedReaderWithPath(filepath.Join(dir, sstables.DataFileName))
	if err != nil {
		return nil
	}
	defer rd.Close()
	if err := rd.Open(); err != nil {
		return nil
	}
	var offs []int
	off := uint64(recordio.FileHeaderSizeBytes)
	for range pairs {
		o, _, err := rd.SeekNext(off)
		if err != nil {
			break
		}
		offs = append(offs, int(o))
		off = o + 1
	}
	return offs
}

func tblRun(c *Ctx, tc tblCase, tape *simrt.Tape) ([]tblV, int) {
	if c.Mode == "damage" {
		return tblDamage(c, tc, tape)
	}
	var vs []tblV
	var evals int
	if msg := libPanic(func() { vs, evals = tblControl(c, tc, tape) }); msg != "" {
		simrt.Deactivate()
		return append(vs, tblV{"panic|" + normErr(errors.New(msg)), "writing or reading a valid table panicked inside the library: " + msg}), evals
	}
	return vs, evals
}

func tblShrinks(c tblCase) []tblCase {
	var out []tblCase
	for _, n := range []int{c.NKeys / 2, c.NKeys - 1} {
		if n >= 0 && n < c.NKeys {
			d := c
			d.NKeys = n
			out = append(out, d)
		}
	}
	if c.ReadChunk != 0 {
		d := c
		d.ReadChunk = 0
		out = append(out, d)
	}
	if c.DataComp != 0 {
		d := c
		d.DataComp = 0
		out = append(out, d)
	}
	if c.IndexComp != 0 {
		d := c
		d.IndexComp = 0
		out = append(out, d)
	}
	if c.SkipList {
		d := c
		d.SkipList = false
		out = append(out, d)
	}
	return out
}

func tablesimMain(c *Ctx) {
	for i := 0; c.TimeLeft(); i++ {
		seed := c.RunSeed(i)
		r := rand.New(rand.NewSource(seed))
		tc := tblGen(r, c.Mode, c.Thorough())
		if c.Mode == "damage" && tc.NKeys > 200 && time.Until(c.Deadline) < c.Deadline.Sub(c.startWall)*6/10 {
			// a table of a thousand records takes minutes in the damage arm: such cases are only started in the first
			// part of the budget, so that the check ends near its budget (the case is a small table instead)
			tc.NKeys = 1 + r.Intn(6)
			c.Count("probe:big-table-case-replaced-late-in-the-budget", 1)
		}
		c.Begin(seed, tc)
		vs, evals := tblRun(c, tc, simrt.NewTape(seed))
		c.Res.Runs++
		c.Res.Evaluations += evals
		if tc.NKeys > 0 {
			c.Distinct(hash64("tbl", mustJSON(tc)))
		}
		c.Count("probe:loader-"+loaderNames[tc.Loader], 1)
		c.Count(fmt.Sprintf("probe:data-compression-%d", tc.DataComp), 1)
		c.Count("probe:read-in-chunks", min(tc.ReadChunk, 1))
		if tc.SkipList {
			c.Count("probe:skiplist-writer", 1)
		}
		if len(c.Res.Seeds) < 8 {
			c.Res.Seeds = append(c.Res.Seeds, seed)
		}
		c.Sample(map[string]any{"run_seed": seed, "case": tc})
		seen := map[string]bool{}
		for _, v := range vs {
			if seen[v.sig] {
				continue
			}
			seen[v.sig] = true
			min := tc
			if c.matchKnown(c.Property, v.sig) == "" && c.seenSig[c.Property+"|"+v.sig] == 0 {
				min = shrinkLoop(tc, tblShrinks, func(cand tblCase) bool {
					cv, _ := tblRun(c, cand, simrt.NewTape(seed))
					for _, x := range cv {
						if x.sig == v.sig {
							return true
						}
					}
					return false
				}, time.Now().Add(15*time.Second))
			}
			detail := v.detail
			cv, _ := tblRun(c, min, simrt.NewTape(seed))
			for _, x := range cv {
				if x.sig == v.sig {
					detail = x.detail
				}
			}
			c.Report(Violation{Sig: v.sig, Detail: detail}, &ReplayFile{RunSeed: seed, Case: mustJSON(min), Minimised: true})
		}
	}
}

func tablesimReplay(c *Ctx, rf *ReplayFile) []Violation {
	var tc tblCase
	if err := json.Unmarshal(rf.Case, &tc); err != nil {
		panic(err)
	}
	c.Mode = rf.Mode
	vs, _ := tblRun(c, tc, simrt.NewTape(rf.RunSeed))
	var out []Violation
	for _, v := range vs {
		out = append(out, Violation{Property: rf.Property, Sig: v.sig, Detail: v.detail})
	}
	return out
}

package harness

import (
	"errors"
	"fmt"
	"math/rand"
	"os"
	"path/filepath"
	"sort"
	"strings"
	"testing"
	"time"

	"github.com/thomasjungblut/go-sstables/simpledb"
	"verifsim/simrt"
)

// Shared machinery: run SimpleDB sessions (real flusher and compactor
// goroutines) under the seeded scheduler and record the client history.

type dbOpts struct {
	Memstore    uint64  `json:"memstore"`
	Threshold   int     `json:"threshold"`
	MaxSize     uint64  `json:"max_size"`
	Ratio       float32 `json:"ratio"`
	WriteBuf    uint64  `json:"write_buf"`
	ReadBuf     uint64  `json:"read_buf"`
	Compactions bool    `json:"compactions"`
	Async       bool    `json:"async,omitempty"`
	DirectIOWAL bool    `json:"direct_io_wal,omitempty"` // only together with Async (WriteSync is unsupported with direct I/O by design)
}

func (o dbOpts) options() []simpledb.ExtraOption {
	opts := []simpledb.ExtraOption{
		simpledb.MemstoreSizeBytes(o.Memstore),
		simpledb.CompactionFileThreshold(o.Threshold),
		simpledb.CompactionMaxSizeBytes(o.MaxSize),
		simpledb.CompactionRatio(o.Ratio),
		simpledb.WriteBufferSizeBytes(o.WriteBuf),
		simpledb.ReadBufferSizeBytes(o.ReadBuf),
		simpledb.CompactionRunInterval(time.Second),
	}
	if !o.Compactions {
		opts = append(opts, simpledb.DisableCompactions())
	}
	if o.Async {
		opts = append(opts, simpledb.EnableAsyncWAL())
		if o.DirectIOWAL {
			opts = append(opts, simpledb.EnableDirectIOWAL())
		}
	}
	return opts
}

func genOpts(r *rand.Rand) dbOpts {
	return dbOpts{
		Memstore:    pick(r, uint64(64), 64, 128, 256, 512, 2048, 16384, 1<<30),
		Threshold:   pick(r, 0, 1, 1, 2, 2, 3, 10),
		MaxSize:     pick(r, uint64(200), 400, 1024, 4096, 5<<30),
		Ratio:       pick(r, float32(0), 0.2, 0.5, 1, 1),
		WriteBuf:    pick(r, uint64(64), 128, 512, 4096, 4<<20),
		ReadBuf:     pick(r, uint64(64), 128, 512, 4096, 4<<20),
		Compactions: r.Intn(5) != 0,
	}
}

type dbOp struct {
	Kind   string `json:"k"` // put | del | get
	Key    int    `json:"key"`
	ValLen int    `json:"len,omitempty"`
}

type schedKnobs struct {
	WClient, WFlusher, WCompactor int
	Advance                       int
	UnlockYield                   bool `json:",omitempty"` // lock releases are scheduling points too
}

type dbSession struct {
	Opts    dbOpts     `json:"opts"`
	Clients [][]dbOp   `json:"clients"`
	Knobs   schedKnobs `json:"knobs"`
	NoClose bool       `json:"no_close,omitempty"`
	// Close is called on the handle before Open (documented to return ErrNotOpenedYet): it must not change what the
	// later Open / Close pair does
	EarlyClose bool `json:"early_close,omitempty"`
	RelPath bool       `json:"rel_path,omitempty"` // open the database by a relative base path
	Symlink bool       `json:"symlink,omitempty"`  // open the database through a symbolic link to its directory
}

type dbCase struct {
	Keys     []string    `json:"keys"`
	Sessions []dbSession `json:"sessions"`
	Recovery dbOpts      `json:"recovery"`
	// delete directory entries inside RemoveAll in a tape-chosen order (crash harness)
	PermuteUnlink bool `json:"permute_unlink,omitempty"`
	// the database (and every crash image of it) lives in a directory whose name holds glob metacharacters etc.
	OddName bool `json:"odd_name,omitempty"`
}

var keyPool = []string{"a", "ab", "abc", "b", "key-with-a-long-name-0123456789", "k\x00bin\xff", "zz", "m"}

func genKeys(r *rand.Rand, n int) []string {
	keys := append([]string{}, keyPool[:min(n, len(keyPool))]...)
	for len(keys) < n {
		keys = append(keys, fmt.Sprintf("key%03d", len(keys)))
	}
	if r.Intn(4) == 0 {
		keys[len(keys)-1] = strings.Repeat("L", pick(r, 127, 128, 300, 16384))
	}
	return keys
}

func genProgram(r *rand.Rand, nkeys, nops int, getFrac, delFrac int) []dbOp {
	var ops []dbOp
	hot := r.Intn(nkeys)
	for i := 0; i < nops; i++ {
		k := r.Intn(nkeys)
		if r.Intn(3) == 0 {
			k = hot // overwrite / delete / re-put chains on one key
		}
		x := r.Intn(100)
		switch {
		case x < getFrac:
			ops = append(ops, dbOp{Kind: "get", Key: k})
		case x < getFrac+delFrac:
			ops = append(ops, dbOp{Kind: "del", Key: k})
		default:
			ops = append(ops, dbOp{Kind: "put", Key: k, ValLen: pick(r, 1, 3, 10, 30, 80, 127, 128, 200, 600)})
		}
	}
	return ops
}

func genKnobs(r *rand.Rand) schedKnobs {
	return schedKnobs{
		WClient:    pick(r, 1, 2, 4, 8),
		WFlusher:   pick(r, 1, 2, 4, 8),
		WCompactor: pick(r, 1, 2, 4, 8),
		Advance:    pick(r, 0, 1, 1, 2, 4),
	}
}

// opRec is one client operation of the recorded history.
type opRec struct {
	ID      int    `json:"id"`
	Session int    `json:"s"`
	Client  int    `json:"c"`
	Kind    string `json:"k"`
	Key     string `json:"key"`
	Val     string `json:"val,omitempty"` // put: written value; get: returned value
	Found   bool   `json:"found,omitempty"`
	Inv     int    `json:"inv"`
	Ret     int    `json:"ret"` // 0 = never returned
	Err     string `json:"err,omitempty"`
}

func valueFor(id, n int) string {
	s := fmt.Sprintf("v%d:", id)
	if len(s) >= n {
		return s
	}
	// incompressible-ish but deterministic padding
	var sb strings.Builder
	sb.WriteString(s)
	x := uint32(id)*2654435761 + 12345
	for sb.Len() < n {
		x = x*1664525 + 1013904223
		sb.WriteByte("abcdefghijklmnopqrstuvwxyzABCDEFGHIJKLMNOPQRSTUVWXYZ0123456789"[x>>26%62])
	}
	return sb.String()
}

type sessionResult struct {
	OpenErr                                    error
	CloseErr                                   error
	Closed                                     bool
	SchedErr                                   error
	Run                                        simrt.RunResult
	Stopped                                    []string
	Handles                                    []string // open after Close
	Mappings                                   []string
	MaxHandles, MaxMappings                    int
	TasksLeft                                  []string
	OpenSeq, OpenRetSeq, CloseSeq, CloseRetSeq int
	BubblePanic                                string
	Unfinished                                 bool
	ProcFDs, ProcMaps                          []string
}

type dbRunner struct {
	w           *simrt.World
	dir         string
	hist        []*opRec
	nextID      int
	keys        []string
	t           *testing.T
	onOp        func(db *simpledb.DB, op *opRec)                     // optional hook after each op returned (runs inside the client task)
	betweenHook func(db *simpledb.DB, sess int, client int, idx int) // optional: before each op
}

func newDBRunner(t *testing.T, dir string, tape *simrt.Tape, keys []string) *dbRunner {
	w := simrt.NewWorld(dir, tape)
	return &dbRunner{w: w, dir: dir, keys: keys, t: t}
}

func (r *dbRunner) doOp(db *simpledb.DB, sess, client, idx int, op dbOp, hist *[]*opRec) *opRec {
	// ids (and therefore written values) are unique without any state shared between client tasks
	rec := &opRec{ID: sess*100000 + client*10000 + idx, Session: sess, Client: client, Kind: op.Kind, Key: r.keys[op.Key]}
	if op.Kind == "put" {
		rec.Val = valueFor(rec.ID, op.ValLen)
	}
	if op.Kind == "delempty" {
		rec.Key = ""
	}
	*hist = append(*hist, rec)
	rec.Inv = r.w.Emit(simrt.Event{Kind: simrt.EvInvoke, N: int64(rec.ID)})
	var err error
	switch op.Kind {
	case "put":
		err = db.Put(rec.Key, rec.Val)
	case "del":
		err = db.Delete(rec.Key)
	case "delempty":
		// Delete of the empty key: the documentation does not say whether it is rejected. Either way it must not
		// change what any other key reads as (no value can exist under the empty key: Put rejects it).
		_ = db.Delete("")
	case "get":
		var v string
		v, err = db.Get(rec.Key)
		if err == nil {
			rec.Val, rec.Found = v, true
		} else if errors.Is(err, simpledb.ErrNotFound) {
			err = nil
		}
	}
	if err != nil {
		rec.Err = err.Error()
	}
	rec.Ret = r.w.Emit(simrt.Event{Kind: simrt.EvReturn, N: int64(rec.ID)})
	return rec
}

// runSession runs one session of the case inside a synctest bubble.
func (r *dbRunner) runSession(si int, s dbSession) (res sessionResult) {
	defer func() {
		if p := recover(); p != nil {
			msg := fmt.Sprint(p)
			if strings.Contains(msg, "deadlock") || strings.Contains(msg, "blocked goroutines") {
				res.BubblePanic = msg // expected after KillTasks when the code under test is blocked natively
				return
			}
			panic(p)
		}
	}()
	runBubble(r.t, func(t *testing.T) {
		w := r.w
		w.EnableScheduler(simrt.SchedConfig{
			Weights:       [4]int{s.Knobs.WClient, s.Knobs.WFlusher, s.Knobs.WCompactor, 1},
			AdvanceWeight: s.Knobs.Advance,
			Interval:      time.Second,
			MaxAdvances:   200,
			MaxSteps:      2000000,
			YieldOnUnlock: s.Knobs.UnlockYield,
		})
		base := r.dir
		if s.RelPath {
			// the database is opened by a relative path (the worker runs one simulated run at a time, so changing the
			// process's working directory is safe; every path the harness itself uses is absolute)
			old, err := os.Getwd()
			if err == nil {
				err = os.Chdir(filepath.Dir(r.dir))
			}
			if err != nil {
				panic(err)
			}
			defer os.Chdir(old)
			base = filepath.Base(r.dir)
			if s.RelPath && len(s.Clients) > 0 && len(s.Clients[0])%2 == 0 {
				base = "./" + base
			}
		}
		if s.Symlink && !s.RelPath {
			// a deployment that reaches its data directory through a symbolic link (/data -> /mnt/disk1/db)
			link := r.dir + ".lnk"
			if _, err := os.Lstat(link); err != nil {
				if err := os.Symlink(r.dir, link); err != nil {
					panic(err)
				}
			}
			w.Alias = link
			base = link
		}
		db, err := simpledb.NewSimpleDB(base, s.Opts.options()...)
		if err != nil {
			res.OpenErr = err
			return
		}
		done := make(chan struct{}, len(s.Clients)+1)
		fin := make(chan struct{}, 1)
		ch := make([][]*opRec, len(s.Clients)+1)
		for ci := range s.Clients {
			ch[ci] = make([]*opRec, 0, len(s.Clients[ci]))
		}
		merge := func() {
			var all []*opRec
			for _, h := range ch {
				all = append(all, h...)
			}
			sort.SliceStable(all, func(i, j int) bool { return all[i].Inv < all[j].Inv })
			r.hist = append(r.hist, all...)
		}
		merged := false
		w.GoClient("main", func() {
			defer func() { fin <- struct{}{} }()
			res.OpenSeq = w.Emit(simrt.Event{Kind: simrt.EvMark, Note: "open"})
			w.Phase = "open"
			if s.EarlyClose {
				_ = db.Close()
			}
			err := db.Open()
			w.Phase = ""
			res.OpenRetSeq = w.Emit(simrt.Event{Kind: simrt.EvMark, Note: "opened"})
			if err != nil {
				res.OpenErr = err
				return
			}
			for ci := 1; ci < len(s.Clients); ci++ {
				ci := ci
				w.GoClient(fmt.Sprintf("client%d", ci), func() {
					defer func() { done <- struct{}{} }()
					for i, op := range s.Clients[ci] {
						simrt.Yield("op")
						if r.betweenHook != nil {
							r.betweenHook(db, si, ci, i)
						}
						rec := r.doOp(db, si, ci, i, op, &ch[ci])
						if r.onOp != nil {
							r.onOp(db, rec)
						}
					}
				})
			}
			if len(s.Clients) > 0 {
				for i, op := range s.Clients[0] {
					simrt.Yield("op")
					if r.betweenHook != nil {
						r.betweenHook(db, si, 0, i)
					}
					rec := r.doOp(db, si, 0, i, op, &ch[0])
					if r.onOp != nil {
						r.onOp(db, rec)
					}
				}
			}
			for ci := 1; ci < len(s.Clients); ci++ {
				<-done
			}
			merge() // every client has finished: their histories are ordered before this point
			merged = true
			if s.NoClose {
				return
			}
			simrt.Yield("op")
			res.CloseSeq = w.Emit(simrt.Event{Kind: simrt.EvMark, Note: "close"})
			res.CloseErr = db.Close()
			res.Closed = true
			res.CloseRetSeq = w.Emit(simrt.Event{Kind: simrt.EvMark, Note: "closed"})
		})
		rr, err := w.RunScheduler()
		select {
		case <-fin: // orders everything the main task wrote before what follows
		default:
		}
		res.Run = rr
		res.SchedErr = err
		if !merged {
			if simrt.RaceBuild {
				res.Unfinished = true // the tasks were torn down mid-way: their partial histories are not read
			} else {
				merge()
			}
		}
		res.Stopped = w.StoppedMessages()
		res.MaxHandles, res.MaxMappings = w.MaxHandles, w.MaxMappings
		if err != nil || len(res.Stopped) > 0 || s.NoClose {
			res.TasksLeft = rr.WaitFor
			w.KillTasks()
			return
		}
		res.Handles = w.OpenHandles()
		res.Mappings = w.OpenMappings()
		res.TasksLeft = rr.WaitFor
		res.ProcFDs, res.ProcMaps = procRefs(r.dir)
		if len(rr.WaitFor) > 0 {
			w.KillTasks()
		}
	})
	return res
}

// procRefs lists descriptors and mappings of this process that point below dir (independent of the ledger).
func procRefs(dir string) (fds, maps []string) {
	ents, err := os.ReadDir("/proc/self/fd")
	if err == nil {
		for _, e := range ents {
			if l, err := os.Readlink("/proc/self/fd/" + e.Name()); err == nil && strings.HasPrefix(l, dir+"/") {
				fds = append(fds, strings.TrimPrefix(l, dir+"/"))
			}
		}
	}
	if b, err := os.ReadFile("/proc/self/maps"); err == nil {
		for _, line := range strings.Split(string(b), "\n") {
			if i := strings.Index(line, dir+"/"); i >= 0 {
				maps = append(maps, line[i+len(dir)+1:])
			}
		}
	}
	return
}

// runInBubble runs body as the single client task of a scheduled run (background tasks of the code under test
// are interleaved by the tape). It returns the scheduler result and error.
func runInBubble(t *testing.T, w *simrt.World, knobs schedKnobs, body func()) (res simrt.RunResult, err error, stopped []string) {
	defer func() {
		if p := recover(); p != nil {
			msg := fmt.Sprint(p)
			if strings.Contains(msg, "deadlock") || strings.Contains(msg, "blocked goroutines") {
				return
			}
			panic(p)
		}
	}()
	runBubble(t, func(t *testing.T) {
		w.EnableScheduler(simrt.SchedConfig{
			Weights:       [4]int{max(knobs.WClient, 1), max(knobs.WFlusher, 1), max(knobs.WCompactor, 1), 1},
			AdvanceWeight: knobs.Advance,
			Interval:      time.Second,
			MaxAdvances:   50,
			MaxSteps:      2000000,
		})
		w.GoClient("main", body)
		res, err = w.RunScheduler()
		stopped = w.StoppedMessages()
		if err != nil || len(stopped) > 0 || len(res.WaitFor) > 0 {
			w.KillTasks()
		}
	})
	return
}

package harness

import (
	"encoding/binary"
	"encoding/json"
	"errors"
	"fmt"
	"math/rand"
	"os"
	"regexp"
	"sort"
	"strings"
	"time"

	"github.com/thomasjungblut/go-sstables/simpledb"
	"verifsim/fsmodel"
	"verifsim/simrt"
)

// crashsim (C02 sync, C10 nested, C13 async): sessions are simulated once under
// the seeded scheduler; every file-system boundary of the recorded trace is a
// crash image (kill -9 model) that is re-opened with the real recovery code and
// judged against the recorded history.

func init() {
	harnesses["crashsim"] = crashsimMain
	replayers["crashsim"] = crashsimReplay
}

func crashGen(r *rand.Rand, mode string, thorough bool) dbCase {
	nkeys := 2 + r.Intn(5)
	c := dbCase{Keys: genKeys(r, nkeys)}
	nsess := 1 + r.Intn(2)
	if thorough && r.Intn(3) == 0 {
		nsess = 3
	}
	for s := 0; s < nsess; s++ {
		opts := genOpts(r)
		// bias towards frequent rotation, flush, compaction and small write buffers
		opts.Memstore = pick(r, uint64(64), 64, 128, 128, 256, 1024)
		opts.WriteBuf = pick(r, uint64(64), 64, 128, 512, 4096, 4<<20)
		opts.Threshold = pick(r, 0, 1, 1, 2, 3)
		opts.Compactions = r.Intn(6) != 0
		nclients := 1 + r.Intn(3)
		nops := 6 + r.Intn(25)
		if thorough {
			nops = 10 + r.Intn(60)
		}
		if mode == "async" {
			opts.Async = true
			opts.DirectIOWAL = r.Intn(4) == 0 // block aligned WAL writes (O_DIRECT itself is a declared stub)
			nclients = 1
			opts.Memstore = pick(r, uint64(64), 256, 1024, 1<<20, 5<<20, 1<<30)
		}
		var clients [][]dbOp
		for ci := 0; ci < nclients; ci++ {
			prog := genProgram(r, nkeys, nops/nclients+1, 10, 25)
			if mode != "async" && ci == 0 && r.Intn(25) == 0 {
				// a value larger than the (fixed, 4 MiB) WAL write buffer: its record reaches the file in two writes
				prog[r.Intn(len(prog))] = dbOp{Kind: "put", Key: r.Intn(nkeys), ValLen: 4_300_000 + r.Intn(500_000)}
			}
			if r.Intn(4) == 0 {
				// a value far larger than the memstore limit and the write buffers
				prog[r.Intn(len(prog))] = dbOp{Kind: "put", Key: r.Intn(nkeys), ValLen: pick(r, 3000, 8000, 30000)}
			}
			if s > 0 && ci == 0 && r.Intn(3) == 0 {
				// a later session that starts with deletes of keys written earlier: until its first Put the WAL
				// holds tombstones only, while the values live in tables of the earlier sessions
				var pre []dbOp
				for j := 0; j < 1+r.Intn(3); j++ {
					pre = append(pre, dbOp{Kind: "del", Key: r.Intn(nkeys)})
				}
				prog = append(pre, prog...)
			}
			if r.Intn(6) == 0 {
				// a long run of deletes: they never rotate the memstore, so the WAL file keeps growing
				k := r.Intn(nkeys)
				for j := 0; j < 40; j++ {
					prog = append(prog, dbOp{Kind: "del", Key: (k + j) % nkeys})
				}
			}
			if ci == 0 && r.Intn(5) == 0 {
				// accepted deletes of the empty key: WAL records and tombstones with a key that is read back as nil
				for n := 1 + r.Intn(2); n > 0; n-- {
					at := r.Intn(len(prog) + 1)
					prog = append(prog[:at], append([]dbOp{{Kind: "delempty"}}, prog[at:]...)...)
				}
			}
			clients = append(clients, prog)
		}
		if mode == "async" && r.Intn(2) == 0 {
			// log more than the (fixed, 4 MiB) WAL write buffer so that buffer flushes cut records
			big := pick(r, 300_000, 700_000, 1_500_000)
			if r.Intn(5) == 0 {
				big = 4_400_000 // a single record larger than the WAL buffer (and than the reader's buffer)
			}
			n := 3 + r.Intn(8)
			var prog []dbOp
			for i := 0; i < n; i++ {
				prog = append(prog, dbOp{Kind: "put", Key: r.Intn(nkeys), ValLen: big + r.Intn(1000)})
				if r.Intn(3) == 0 {
					prog = append(prog, dbOp{Kind: "del", Key: r.Intn(nkeys)})
				}
				if r.Intn(3) == 0 {
					prog = append(prog, dbOp{Kind: "put", Key: r.Intn(nkeys), ValLen: 10})
				}
			}
			clients = [][]dbOp{prog}
		}
		c.Sessions = append(c.Sessions, dbSession{Opts: opts, Clients: clients, Knobs: genKnobs(r)})
	}
	c.Recovery = genOpts(r)
	c.Recovery.Async = mode == "async" && r.Intn(2) == 0
	c.PermuteUnlink = r.Intn(2) == 0
	c.OddName = r.Intn(8) == 0
	return c
}

// ---- recovery of one image ----

type recovered struct {
	openErr  error
	state    map[string]string // key -> value for found keys
	getErr   error
	closeErr error
	stopped  []string
	trace    []simrt.Event // recovery trace (events relative to the image dir)
	openedAt int           // seq of the "opened" mark in trace
	leaks    []string      // descriptors / mappings still open after Close
}

func recoverImage(c *Ctx, m *fsmodel.FS, opts dbOpts, keys []string, tape *simrt.Tape, permute bool) *recovered {
	dir := freshDir(c, "img")
	defer os.RemoveAll(dir)
	if err := m.Materialize(dir); err != nil {
		panic(err)
	}
	return recoverDir(dir, opts, keys, tape, permute)
}

func recoverDir(dir string, opts dbOpts, keys []string, tape *simrt.Tape, permute bool) *recovered {
	Beat()
	w := simrt.NewWorld(dir, tape)
	w.PermuteUnlink = permute
	defer simrt.Deactivate()
	defer w.ReleaseAll()
	rec := &recovered{state: map[string]string{}}
	o := opts.options()
	o = append(o, simpledb.CompactionRunInterval(time.Hour)) // direct mode: the real ticker must never fire
	db, err := simpledb.NewSimpleDB(dir, o...)
	if err != nil {
		rec.openErr = err
		return rec
	}
	func() {
		defer func() {
			if p := recover(); p != nil {
				rec.openErr = fmt.Errorf("panic during Open: %v", p)
			}
		}()
		rec.openErr = db.Open()
	}()
	rec.openedAt = w.Emit(simrt.Event{Kind: simrt.EvMark, Note: "opened"})
	if rec.openErr != nil {
		rec.trace = w.Trace()
		return rec
	}
	for _, k := range keys {
		v, err := db.Get(k)
		if err == nil {
			rec.state[k] = v
		} else if !errors.Is(err, simpledb.ErrNotFound) {
			rec.getErr = fmt.Errorf("Get(%q): %w", k, err)
		}
	}
	rec.closeErr = db.Close()
	rec.leaks = append(w.OpenHandles(), w.OpenMappings()...)
	rec.stopped = w.StoppedMessages()
	rec.trace = w.Trace()
	return rec
}

// ---- oracles ----

// allowedFinal computes, for one key, which final values a linearizable single-copy map may hold when the
// process is killed at `cutoff`: operations that returned before the cutoff took effect, operations invoked
// but not returned may each be present or absent.
func allowedFinal(hist []*opRec, key string, cutoff int) (vals map[string]bool, absent bool, lastCompleted *opRec) {
	type wr struct {
		op   *opRec
		ret  int
		done bool
	}
	var ws []wr
	for _, op := range hist {
		if op.Key != key || op.Kind == "get" || op.Inv >= cutoff || op.Err != "" {
			continue
		}
		done := op.Ret != 0 && op.Ret < cutoff
		ret := 1 << 60
		if done {
			ret = op.Ret
		}
		ws = append(ws, wr{op, ret, done})
	}
	vals = map[string]bool{}
	superseded := func(ret int) bool {
		for _, w := range ws {
			if w.done && w.op.Inv > ret {
				return true
			}
		}
		return false
	}
	absent = !superseded(0) // initial state
	for _, w := range ws {
		if w.done && (lastCompleted == nil || w.op.Ret > lastCompleted.Ret) {
			lastCompleted = w.op
		}
		if superseded(w.ret) {
			continue
		}
		if w.op.Kind == "put" {
			vals[w.op.Val] = true
		} else {
			absent = true
		}
	}
	return
}

func judgeSync(hist []*opRec, keys []string, state map[string]string, cutoff int) (kind, detail string) {
	for _, k := range keys {
		vals, absent, last := allowedFinal(hist, k, cutoff)
		v, found := state[k]
		if found && vals[v] {
			continue
		}
		if !found && absent {
			continue
		}
		lastDesc := "none"
		if last != nil {
			lastDesc = fmt.Sprintf("%s #%d (returned at event %d)", last.Kind, last.ID, last.Ret)
		}
		if found {
			written := false
			for _, op := range hist {
				if op.Kind == "put" && op.Val == v && op.Key == k {
					written = true
				}
			}
			switch {
			case !written:
				kind = "value-never-written"
			case last != nil && last.Kind == "del":
				kind = "deleted-key-readable"
			default:
				kind = "stale-value"
			}
			detail = fmt.Sprintf("key %q reads %q.. after recovery; allowed values: %v (absent allowed: %v); last completed write: %s", k, head([]byte(v)), headKeys(vals), absent, lastDesc)
		} else {
			kind = "acknowledged-put-lost"
			detail = fmt.Sprintf("key %q is not found after recovery; allowed values: %v; last completed write: %s", k, headKeys(vals), lastDesc)
		}
		return
	}
	return "", ""
}

func headKeys(m map[string]bool) []string {
	var out []string
	for k := range m {
		out = append(out, head([]byte(k)))
	}
	sort.Strings(out)
	return out
}

// judgePrefix (async WAL, single client): the state must equal the reference map after some prefix p of the
// operation sequence with pMin <= p <= invoked.
func judgePrefix(hist []*opRec, keys []string, state map[string]string, pMin, invoked int) (kind, detail string) {
	var muts []*opRec
	for _, op := range hist {
		if op.Kind != "get" && op.Err == "" {
			muts = append(muts, op)
		}
	}
	model := map[string]string{}
	eq := func() bool {
		for _, k := range keys {
			mv, mok := model[k]
			sv, sok := state[k]
			if mok != sok || mv != sv {
				return false
			}
		}
		return true
	}
	best := -1
	if eq() {
		best = 0
	}
	n := 0
	for _, op := range muts {
		if op.Inv == 0 {
			break
		}
		n++
		if n > invoked {
			break
		}
		if op.Kind == "put" {
			model[op.Key] = op.Val
		} else {
			delete(model, op.Key)
		}
		if eq() {
			best = n
		}
	}
	if best < 0 {
		return "not-a-prefix-state", fmt.Sprintf("recovered content equals the reference map after no prefix of the %d invoked mutations (holes or reordering); state=%v", invoked, headState(state))
	}
	if best < pMin {
		return "prefix-too-short", fmt.Sprintf("recovered content equals the reference after %d mutations, but %d had returned before the last WAL rotation preceding the kill", best, pMin)
	}
	return "", ""
}

func headState(s map[string]string) map[string]string {
	out := map[string]string{}
	for k, v := range s {
		out[head([]byte(k))] = head([]byte(v))
	}
	return out
}

// ---- abstract crash state ----

var tableDirRe = regexp.MustCompile(`^sstable_[0-9]+$`)

func imageTags(m *fsmodel.FS) []string {
	var tags []string
	walFiles := 0
	for _, name := range m.Children(".") {
		switch {
		case strings.HasPrefix(name, simpledb.SSTableCompactionPathPrefix):
			if m.Exists(name + "/" + simpledb.CompactionFinishedSuccessfulFileName) {
				if m.Size(name+"/meta.pb.bin") <= 0 {
					tags = append(tags, "compaction-flagged-but-output-unfinished")
				} else {
					tags = append(tags, "compaction-flagged")
				}
			} else {
				tags = append(tags, "compaction-unflagged")
			}
		case tableDirRe.MatchString(name):
			hasIdx, hasData := m.Exists(name+"/index.rio"), m.Exists(name+"/data.rio")
			meta := m.Size(name + "/meta.pb.bin")
			switch {
			case meta <= 0:
				tags = append(tags, "table-being-written")
			case !hasIdx || !hasData:
				tags = append(tags, "table-being-deleted")
			}
			if m.Exists(name + "/" + simpledb.CompactionFinishedSuccessfulFileName) {
				tags = append(tags, "table-with-compaction-flag")
			}
		}
	}
	for _, f := range m.Children("wal") {
		if strings.HasSuffix(f, ".wal") {
			walFiles++
			if m.Size("wal/"+f) < 8 {
				tags = append(tags, "wal-file-without-header")
			}
		}
	}
	if !m.Exists("wal") {
		tags = append(tags, "no-wal-dir")
	}
	if walFiles >= 2 {
		tags = append(tags, "wal-files>=2")
	}
	tags = uniq(tags)
	sort.Strings(tags)
	return tags
}

func isWalCreateEv(e simrt.Event) bool {
	return e.Kind == simrt.EvCreate && strings.HasPrefix(e.Path, "wal/")
}

type rotation struct{ doneAt, coversBefore int }

// asyncBounds: pMin = mutations that had returned before the call that performed the last completed rotation,
// invoked = mutations invoked before the kill.
func asyncBounds(hist []*opRec, rotations []rotation, cutoff int) (pMin, invoked int) {
	for _, op := range hist {
		if op.Kind == "get" || op.Err != "" {
			continue
		}
		if op.Inv != 0 && op.Inv < cutoff {
			invoked++
		}
		for _, rot := range rotations {
			if rot.doneAt < cutoff && op.Ret != 0 && op.Ret < rot.coversBefore {
				pMin++
				break
			}
		}
	}
	return
}

func walBytes(m *fsmodel.FS) int {
	n := 0
	for _, f := range m.Children("wal") {
		if sz := m.Size("wal/" + f); sz > n {
			n = sz
		}
	}
	return n
}

type tailCut struct {
	path   string
	length int
	what   string
}

// tornTailCuts parses the newest WAL file of the image and returns cut lengths inside its last complete record:
// every byte of the header and a few payload positions.
func tornTailCuts(m *fsmodel.FS) []tailCut {
	files := m.Children("wal")
	if len(files) == 0 {
		return nil
	}
	p := "wal/" + files[len(files)-1]
	data := m.Data(p)
	if len(data) <= 8 {
		return nil
	}
	pos, lastStart, lastHdr, lastEnd := 8, -1, 0, 0
	for pos < len(data) {
		q := pos + 3
		if q+1 > len(data) || data[pos] != 0x91 || data[pos+1] != 0x8d || data[pos+2] != 0x4c {
			break
		}
		isNil := data[q] == 1
		q++
		var vals [3]uint64
		ok := true
		for k := 0; k < 3; k++ {
			v, n := binary.Uvarint(data[q:])
			if n <= 0 {
				ok = false
				break
			}
			vals[k] = v
			q += n
		}
		if !ok {
			break
		}
		end := q + int(vals[1]) // WAL files are compressed: the stored payload has the compressed size
		if isNil {
			end = q
		}
		if end > len(data) {
			break
		}
		lastStart, lastHdr, lastEnd = pos, q-pos, end
		pos = end
	}
	if lastStart < 0 {
		return nil
	}
	var cuts []tailCut
	for L := lastStart + 1; L <= lastStart+lastHdr && L < lastEnd; L++ {
		cuts = append(cuts, tailCut{p, L, fmt.Sprintf("header-byte-%d", L-lastStart)})
	}
	for _, L := range []int{lastStart + lastHdr + 1, (lastStart + lastHdr + lastEnd) / 2, lastEnd - 1} {
		if L > lastStart+lastHdr && L < lastEnd {
			cuts = append(cuts, tailCut{p, L, "payload"})
		}
	}
	return cuts
}

// ---- the analysis of one case ----

type crashOutcome struct {
	vs          []dbViolation
	boundaries  int
	recoveries  int
	nested      int
	steps       int
	simTime     time.Duration
	pickHash    uint64
	imageHashes []string
	trace       []simrt.Event
	histD       string
	tagCounts   map[string]int
	sessionBad  bool
	chained     int
}

type crashPlan struct {
	mode         string
	thorough     bool
	all          bool // evaluate every boundary (else structural + sample)
	count        bool
	onlyBoundary int // >0: evaluate only this boundary (replay of a minimised case keeps all)
}

func structural(kind string) bool {
	switch kind {
	case simrt.EvCreate, simrt.EvMkdir, simrt.EvUnlink, simrt.EvRmdir, simrt.EvRename, simrt.EvTruncate:
		return true
	}
	return false
}

// crashBase starts a case from a recovered crash image instead of an empty directory (mode "chain": crash, recover,
// keep operating, crash again).
type crashBase struct {
	image *fsmodel.FS
	state map[string]string // what the recovered image reads as: the baseline of the continued history
	desc  string
}

func runCrashCase(c *Ctx, dc dbCase, tape *simrt.Tape, plan crashPlan) crashOutcome {
	return runCrashCaseFrom(c, dc, tape, plan, nil)
}

func runCrashCaseFrom(c *Ctx, dc dbCase, tape *simrt.Tape, plan crashPlan, base *crashBase) crashOutcome {
	out := crashOutcome{tagCounts: map[string]int{}}
	c.oddNames = dc.OddName
	dir := freshDir(c, "db")
	defer os.RemoveAll(dir)
	if base != nil {
		if err := base.image.Materialize(dir); err != nil {
			panic(err)
		}
	}
	r := newDBRunner(c.T, dir, tape, dc.Keys)
	sessBase := 0
	if base != nil {
		sessBase = 50
		for _, k := range dc.Keys {
			if v, ok := base.state[k]; ok {
				r.hist = append(r.hist, &opRec{ID: -1, Kind: "put", Key: k, Val: v, Inv: -2, Ret: -1})
			}
		}
	}
	// file systems list directories in different orders: every RemoveAll of the session (compaction inputs, the WAL
	// folder at Open) deletes in a tape-chosen order in half of the cases
	r.w.PermuteUnlink = dc.PermuteUnlink
	add := func(sig, detail string) { out.vs = append(out.vs, dbViolation{sig, detail}) }
	for si, s := range dc.Sessions {
		res := r.runSession(sessBase+si, s)
		out.steps += res.Run.Steps
		out.simTime += res.Run.SimTime
		out.pickHash = out.pickHash*31 + res.Run.PickHash
		bad := ""
		switch {
		case res.OpenErr != nil:
			bad = "open-error:" + normErr(res.OpenErr)
		case len(res.Stopped) > 0:
			bad = "process-stopped:" + normErr(errors.New(firstLine(res.Stopped[0])))
		case res.SchedErr != nil:
			bad = "liveness:" + res.SchedErr.Error()
		case res.CloseErr != nil:
			bad = "close-error:" + normErr(res.CloseErr)
		}
		if bad != "" {
			add("session-failed|"+bad, fmt.Sprintf("session %d of the fault-free run failed: %s %v", si, bad, res.TasksLeft))
			out.sessionBad = true
			break
		}
	}
	simrt.Deactivate()
	r.w.ReleaseAll()
	for _, op := range r.hist {
		if op.Err != "" {
			add("session-failed|api-error:"+normErr(errors.New(op.Err)), fmt.Sprintf("%s(%q) returned %s", op.Kind, op.Key, op.Err))
			out.sessionBad = true
		}
	}
	trace := r.w.Trace()
	hist := r.hist
	out.trace, out.histD = trace, histDigest(hist)
	if os.Getenv("VERIF_TRACE") != "" {
		for _, e := range trace {
			fmt.Printf("TRACE #%d task=%d(%s) %s %s %s off=%d len=%d n=%d %s\n", e.Seq, e.Task, e.TName, e.Kind, e.Path, e.Path2, e.Off, len(e.Data), e.N, e.Note)
		}
		for _, op := range hist {
			fmt.Printf("HIST op#%d s%d c%d %s %q val=%q found=%v inv=%d ret=%d err=%s\n", op.ID, op.Session, op.Client, op.Kind, head([]byte(op.Key)), head([]byte(op.Val)), op.Found, op.Inv, op.Ret, op.Err)
		}
	}
	var mut []int
	for i, e := range trace {
		if simrt.Mutating(e.Kind) {
			mut = append(mut, i)
		}
	}
	out.boundaries = len(mut) + 1
	// choose boundaries
	choose := make([]bool, len(mut)+1)
	rs := rand.New(rand.NewSource(int64(len(trace))*7919 + int64(len(hist))))
	for bi := 0; bi <= len(mut); bi++ {
		if plan.all {
			choose[bi] = true
			continue
		}
		prevS := bi > 0 && structural(trace[mut[bi-1]].Kind)
		nextS := bi < len(mut) && structural(trace[mut[bi]].Kind)
		if prevS || nextS || bi == len(mut) || rs.Intn(10) == 0 {
			choose[bi] = true
		}
	}
	m := fsmodel.New()
	if base != nil {
		m = base.image.Clone()
	}
	cache := map[string]*recovered{}
	type chainCand struct {
		img   *fsmodel.FS
		state map[string]string
		desc  string
	}
	var cands []chainCand
	seenCands := 0
	tornDone := 0
	// Rotations as the statement of C13 means them, observed without naming any mechanism: a WAL file is created inside
	// the window of a client call (or of Open / Close); the rotation counts as done once that call has returned, and
	// then every operation that had returned before the call started must survive. (Counting from the file creation
	// itself would demand more than the statement: a correct implementation may create the next file early.)
	type window struct{ start, end int }
	var windows []window
	{
		open := map[int64]int{}
		markStart := 0
		for _, e := range trace {
			switch e.Kind {
			case simrt.EvInvoke:
				open[e.N] = e.Seq
			case simrt.EvReturn:
				if s0, ok := open[e.N]; ok {
					windows = append(windows, window{s0, e.Seq})
					delete(open, e.N)
				}
			case simrt.EvMark:
				switch e.Note {
				case "open", "close":
					markStart = e.Seq
				case "opened", "closed":
					windows = append(windows, window{markStart, e.Seq})
				}
			}
		}
	}
	var rotations []rotation
	for _, e := range trace {
		if isWalCreateEv(e) {
			for _, wdw := range windows {
				if wdw.start < e.Seq && e.Seq < wdw.end {
					rotations = append(rotations, rotation{wdw.end, wdw.start})
				}
			}
		}
	}
	nestedBudget := 10
	nChosen := 0
	for _, ch := range choose {
		if ch {
			nChosen++
		}
	}
	compactionNested := 0
	earlyNested := 0
	nestedQuota := nestedBudget
	// trace indexes of the first few mutating events after the Open of every session but the first
	earlyInLaterSession := map[int]bool{}
	{
		opens, since := 0, 1<<30
		for i, e := range trace {
			if e.Kind == simrt.EvMark && e.Note == "opened" {
				opens++
				since = 0
			}
			if simrt.Mutating(e.Kind) {
				if opens >= 2 && since < 6 {
					earlyInLaterSession[i] = true
				}
				since++
			}
		}
	}
	if plan.thorough {
		nestedBudget = 40
	}
	for bi := 0; bi <= len(mut); bi++ {
		if bi > 0 {
			e := trace[mut[bi-1]]
			if err := m.Apply(e); err != nil {
				panic("model fidelity: " + err.Error())
			}
		}
		if !choose[bi] {
			continue
		}
		cutoff := 1 << 60
		if bi < len(mut) {
			cutoff = trace[mut[bi]].Seq
		}
		h := m.Hash()
		rec, cached := cache[h]
		tags := imageTags(m)
		if !cached {
			rec = recoverImage(c, m, dc.Recovery, dc.Keys, simrt.NewTape(int64(bi)), false)
			// only the latest image is kept (equal images are nearly always consecutive: events that change nothing
			// on disk); a recovery holds its whole trace and every value, with multi-megabyte values hundreds of MB
			cache = map[string]*recovered{h: rec}
			out.recoveries++
			out.imageHashes = append(out.imageHashes, h)
			for _, t := range tags {
				out.tagCounts[t]++
			}
			if bi > 0 {
				e := trace[mut[bi-1]]
				out.tagCounts["kill-after:"+taskClass(e)+":"+e.Kind]++
			}
		}
		where := fmt.Sprintf("kill between %s and %s [%s]", evDesc(trace, mut, bi-1), evDesc(trace, mut, bi), strings.Join(tags, ","))
		if dt := os.Getenv("VERIF_DEBUG_TAG"); dt != "" && strings.Contains(strings.Join(tags, ","), dt) {
			fmt.Printf("DEBUG-TAG %s: %s files=%v base=%v\n", dt, where, m.Paths(), base != nil)
		}
		tagStr := strings.Join(tags, ",")
		if rec.openErr != nil {
			add("open-error|"+normErr(rec.openErr)+"|"+tagStr, fmt.Sprintf("re-opening the crash image fails (%s): %v", where, rec.openErr))
			continue
		}
		if rec.getErr != nil {
			add("get-error|"+normErr(rec.getErr)+"|"+tagStr, fmt.Sprintf("Get on the recovered image fails (%s): %v", where, rec.getErr))
			continue
		}
		if len(rec.stopped) > 0 {
			add("recovery-stopped|"+normErr(errors.New(firstLine(rec.stopped[0])))+"|"+tagStr, fmt.Sprintf("process stopped during/after recovery (%s): %s", where, rec.stopped[0]))
			continue
		}
		var kind, detail string
		if plan.mode == "async" {
			pMin, invoked := asyncBounds(hist, rotations, cutoff)
			kind, detail = judgePrefix(hist, dc.Keys, rec.state, pMin, invoked)
		} else {
			kind, detail = judgeSync(hist, dc.Keys, rec.state, cutoff)
		}
		if kind != "" {
			add("wrong-content|"+kind+"|"+tagStr, fmt.Sprintf("%s (%s)", detail, where))
			continue
		}
		if plan.mode == "async" && !cached && tornDone < 3 && rs.Intn(8) == 0 {
			// A buffer flush of the asynchronous WAL can end at any byte of a record (it depends on the sizes logged
			// before). The executions sampled here cut at a few positions only, so the newest WAL file of this image
			// is additionally cut at every byte of its last record's header and at some payload positions: each is
			// the crash image of an execution with other value sizes. The same oracle applies.
			if cuts := tornTailCuts(m); len(cuts) > 0 {
				tornDone++
				pMin, invoked := asyncBounds(hist, rotations, cutoff)
				for _, cut := range cuts {
					tm := m.Clone()
					if err := tm.Apply(simrt.Event{Kind: simrt.EvTruncate, Path: cut.path, N: int64(cut.length)}); err != nil {
						panic(err)
					}
					trec := recoverImage(c, tm, dc.Recovery, dc.Keys, simrt.NewTape(int64(cut.length)), false)
					out.recoveries++
					out.tagCounts["synthetic-torn-wal-tail"]++
					tw := fmt.Sprintf("%s; newest WAL file %s additionally cut to %d of %d bytes (%s)", where, cut.path, cut.length, m.Size(cut.path), cut.what)
					if trec.openErr != nil {
						add("open-error|"+normErr(trec.openErr)+"|torn-tail:"+cut.what, fmt.Sprintf("re-opening fails (%s): %v", tw, trec.openErr))
						break
					}
					if k2, d2 := judgePrefix(hist, dc.Keys, trec.state, pMin, invoked); k2 != "" {
						add("wrong-content|"+k2+"|torn-tail:"+cut.what, fmt.Sprintf("%s (%s)", d2, tw))
						break
					}
				}
			}
		}
		if rec.closeErr != nil {
			add("close-after-recovery|"+normErr(rec.closeErr)+"|"+tagStr, fmt.Sprintf("Close after recovery fails (%s): %v", where, rec.closeErr))
			continue
		}
		if plan.mode == "chain" && base == nil && !cached && bi > 0 && bi < len(mut) {
			// candidates to continue from: tagged images first (a flush, compaction or rotation was in progress)
			pri := len(tags) > 0 || walBytes(m) > 8
			seenCands++
			if len(cands) < 3 {
				cands = append(cands, chainCand{m.Clone(), rec.state, where})
			} else if pri && rs.Intn(seenCands) < 6 { // reservoir over the whole trace, later sessions included
				cands[rs.Intn(len(cands))] = chainCand{m.Clone(), rec.state, where}
			}
		}
		if plan.mode == "leaks" {
			if len(rec.leaks) > 0 {
				add("leak-after-recovery-close|"+leakKinds(rec.leaks), fmt.Sprintf("after recovering the crash image and calling Close, still open: %v (%s)", rec.leaks, where))
			}
			continue
		}
		// nested crashes inside recovery (C10)
		// images whose recovery has to finish a compaction are rare and always branched; the others share a budget
		mustNest := strings.Contains(tagStr, "compaction-flagged") && compactionNested < 12
		// the first operations of a re-opened database: tables of earlier sessions exist, the WAL is short
		if bi > 0 && earlyInLaterSession[mut[bi-1]] && earlyNested < 8 && walBytes(m) > 8 {
			mustNest = true
			earlyNested++
			compactionNested--
		}
		if plan.mode == "nested" && !cached && (nestedBudget > 0 || mustNest) {
			// the budget is spread over the whole trace (later sessions included) instead of being used up by the
			// first boundaries; a recovery that has a WAL to replay or a tagged image is preferred
			interesting := len(tags) > 0 || walBytes(m) > 8 || rs.Intn(4) == 0
			if !mustNest && rs.Intn(nChosen+1) > 2*nestedQuota {
				interesting = false
			}
			if interesting {
				if mustNest {
					compactionNested++
				} else {
					nestedBudget--
				}
				vs, n := nestedCrashes(c, m, rec, dc, tags, where, plan.thorough && rs.Intn(4) == 0)
				out.nested += n
				out.vs = append(out.vs, vs...)
			}
		}
	}
	for ci, cand := range cands {
		// crash -> recovery happens as part of the next session's Open -> more operations -> crash again
		r2 := rand.New(rand.NewSource(int64(len(trace))*31 + int64(ci)))
		dc2 := crashGen(r2, "sync", false)
		dc2.Keys = dc.Keys
		for si := range dc2.Sessions {
			for ci2, prog := range dc2.Sessions[si].Clients {
				for oi := range prog {
					dc2.Sessions[si].Clients[ci2][oi].Key %= len(dc.Keys)
				}
			}
		}
		dc2.Sessions = dc2.Sessions[:1]
		sub := runCrashCaseFrom(c, dc2, simrt.NewTape(int64(len(trace))*17+int64(ci)), crashPlan{mode: "sync", thorough: plan.thorough, all: plan.all}, &crashBase{cand.img, cand.state, cand.desc})
		out.recoveries += sub.recoveries
		out.boundaries += sub.boundaries
		out.steps += sub.steps
		out.chained++
		out.imageHashes = append(out.imageHashes, sub.imageHashes...)
		for t, n := range sub.tagCounts {
			out.tagCounts[t] += n
		}
		for _, v := range sub.vs {
			out.vs = append(out.vs, dbViolation{"chained|" + v.sig, "after recovering a first crash image (" + cand.desc + ") and continuing: " + v.detail})
		}
	}
	if plan.count && base == nil {
		if real, err := fsmodel.FromDir(dir); err == nil && !out.sessionBad {
			if d := fsmodel.Diff(m, real); d != "" {
				panic("model fidelity: final image differs from the real directory: " + d)
			}
		}
	}
	return out
}

func taskClass(e simrt.Event) string {
	switch {
	case e.TName == "":
		return "root"
	case strings.HasPrefix(e.TName, "client"), e.TName == "main":
		return "client"
	}
	return e.TName
}

// nestedCrashes kills the recovery of image m at each of its own file-system boundaries and requires that a
// later Open succeeds and yields the state of the uninterrupted recovery.
func nestedCrashes(c *Ctx, m *fsmodel.FS, ref *recovered, dc dbCase, tags []string, where string, depth3 bool) ([]dbViolation, int) {
	// re-run the recovery with a permuted unlink order: directory listing order differs between file systems
	var vs []dbViolation
	n := 0
	for variant := 0; variant < 2; variant++ {
		base := ref
		if variant == 1 {
			base = recoverImage(c, m, dc.Recovery, dc.Keys, simrt.NewTape(int64(len(tags))+77), true)
			if base.openErr != nil || !sameState(base.state, ref.state, dc.Keys) {
				vs = append(vs, dbViolation{"nested|recovery-depends-on-unlink-order|" + strings.Join(tags, ","),
					fmt.Sprintf("recovery with a different directory listing order gives a different result (%s): err=%v", where, base.openErr)})
				continue
			}
		}
		cur := m.Clone()
		for _, e := range base.trace {
			if e.Seq >= base.openedAt {
				break
			}
			if !simrt.Mutating(e.Kind) {
				continue
			}
			if err := cur.Apply(e); err != nil {
				panic("model fidelity (nested): " + err.Error())
			}
			rec2 := recoverImage(c, cur, dc.Recovery, dc.Keys, simrt.NewTape(int64(e.Seq)), false)
			n++
			t2 := strings.Join(imageTags(cur), ",")
			w2 := fmt.Sprintf("%s; then recovery killed after %s(%s %s)", where, e.Kind, e.Path, e.Path2)
			if rec2.openErr != nil {
				vs = append(vs, dbViolation{"nested|open-error:" + normErr(rec2.openErr) + "|" + t2, fmt.Sprintf("Open after an interrupted recovery fails (%s): %v", w2, rec2.openErr)})
				continue
			}
			if rec2.getErr != nil || len(rec2.stopped) > 0 {
				vs = append(vs, dbViolation{"nested|get-error-or-stop|" + t2, fmt.Sprintf("after an interrupted recovery (%s): getErr=%v stopped=%v", w2, rec2.getErr, rec2.stopped)})
				continue
			}
			if !sameState(rec2.state, ref.state, dc.Keys) {
				vs = append(vs, dbViolation{"nested|state-differs|" + t2, fmt.Sprintf("state after an interrupted and repeated recovery differs from the uninterrupted one (%s): got %v want %v", w2, headState(rec2.state), headState(ref.state))})
				continue
			}
			if depth3 {
				cur3 := cur.Clone()
				for _, e3 := range rec2.trace {
					if e3.Seq >= rec2.openedAt {
						break
					}
					if !simrt.Mutating(e3.Kind) {
						continue
					}
					if err := cur3.Apply(e3); err != nil {
						panic("model fidelity (nested3): " + err.Error())
					}
					rec3 := recoverImage(c, cur3, dc.Recovery, dc.Keys, simrt.NewTape(int64(e3.Seq)), false)
					n++
					if rec3.openErr != nil || rec3.getErr != nil || !sameState(rec3.state, ref.state, dc.Keys) {
						vs = append(vs, dbViolation{"nested3|open-error-or-state-differs|" + strings.Join(imageTags(cur3), ","),
							fmt.Sprintf("third-level interrupted recovery (%s; then after %s(%s)): err=%v getErr=%v state=%v want %v", w2, e3.Kind, e3.Path, rec3.openErr, rec3.getErr, headState(rec3.state), headState(ref.state))})
						break
					}
				}
			}
		}
	}
	return vs, n
}

func sameState(a, b map[string]string, keys []string) bool {
	for _, k := range keys {
		av, aok := a[k]
		bv, bok := b[k]
		if aok != bok || av != bv {
			return false
		}
	}
	return true
}

func crashsimMain(c *Ctx) {
	for i := 0; c.TimeLeft(); i++ {
		seed := c.RunSeed(i)
		r := rand.New(rand.NewSource(seed))
		dc := crashGen(r, c.Mode, c.Thorough())
		tape := simrt.NewTape(seed)
		plan := crashPlan{mode: c.Mode, thorough: c.Thorough(), all: c.Thorough() || c.Mode == "async", count: true}
		c.Begin(seed, dc)
		out := runCrashCase(c, dc, tape, plan)
		c.Res.Runs++
		c.RunHash(out.trace, out.pickHash, out.histD, strings.Join(out.imageHashes, ","), len(out.vs))
		c.Res.Evaluations += out.recoveries + out.nested
		c.Res.SimSeconds += out.simTime.Seconds()
		c.Count("sched-steps", out.steps)
		c.Count("boundaries-total", out.boundaries)
		c.Count("nested-recoveries", out.nested)
		c.Count("probe:sessions-continued-from-a-recovered-crash-image", out.chained)
		for _, h := range out.imageHashes {
			c.Distinct(hash64("img", h))
		}
		for t, n := range out.tagCounts {
			c.Count("probe:"+t, n)
		}
		if len(c.Res.Seeds) < 8 {
			c.Res.Seeds = append(c.Res.Seeds, seed)
		}
		if i < 2 {
			c.Sample(map[string]any{"run_seed": seed, "keys": len(dc.Keys), "sessions": summarizeSessions(dc), "recovery_opts": dc.Recovery, "boundaries": out.boundaries, "images_recovered": out.recoveries, "nested": out.nested})
		}
		seen := map[string]bool{}
		for _, v := range out.vs {
			if seen[v.sig] {
				continue
			}
			seen[v.sig] = true
			reportDB(c, "crashsim", dc, tape, seed, v, func(cand dbCase, tp *simrt.Tape) []dbViolation {
				p := plan
				p.count = false
				return runCrashCase(c, cand, tp, p).vs
			})
		}
	}
}

func crashsimReplay(c *Ctx, rf *ReplayFile) []Violation {
	var dc dbCase
	if err := json.Unmarshal(rf.Case, &dc); err != nil {
		panic(err)
	}
	plan := crashPlan{mode: rf.Mode, thorough: rf.Tier == "thorough", all: rf.Tier == "thorough" || rf.Mode == "async"}
	var out []Violation
	for _, v := range runCrashCase(c, dc, tapeFor(rf), plan).vs {
		out = append(out, Violation{Property: rf.Property, Sig: v.sig, Detail: v.detail})
	}
	return out
}

func leakKinds(paths []string) string {
	var kinds []string
	for _, p := range paths {
		switch {
		case strings.HasPrefix(p, "wal/"):
			kinds = append(kinds, "wal-file")
		case strings.Contains(p, "sstable"):
			kinds = append(kinds, "table-file:"+p[strings.LastIndex(p, "/")+1:])
		default:
			kinds = append(kinds, "other")
		}
	}
	sort.Strings(kinds)
	return strings.Join(uniq(kinds), ",")
}

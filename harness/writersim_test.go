package harness

import (
	"bytes"
	"encoding/json"
	"errors"
	"fmt"
	"math/rand"
	"os"
	"path/filepath"
	"strings"
	"time"

	"github.com/thomasjungblut/go-sstables/recordio"
	rProto "github.com/thomasjungblut/go-sstables/recordio/proto"
	"github.com/thomasjungblut/go-sstables/sstables"
	"google.golang.org/protobuf/proto"
	"verifsim/simrt"
)

// writersim (C15): programs of WriteNext with arbitrary (unsorted, repeated, empty, length-changing) keys; a
// chosen subset of calls fails transiently at the data-append or at the index-append step. After Close the
// table must hold exactly the accepted pairs and its metadata must be truthful.

func init() {
	harnesses["writersim"] = writersimMain
	replayers["writersim"] = writersimReplay
}

type wsOp struct {
	Key  string `json:"key"`
	Nil  bool   `json:"nil,omitempty"`
	VLen int    `json:"vlen"`
	Fail string `json:"fail,omitempty"` // "", "data", "index"
}

type wsCase struct {
	DataComp  int    `json:"data_comp"`
	IndexComp int    `json:"index_comp"`
	WriteBuf  int    `json:"write_buf"`
	Ops       []wsOp `json:"ops"`
	Cmp       int    `json:"cmp,omitempty"` // oddCmp kind: a comparator with the byte order but other magnitudes
}

var errInjected = errors.New("injected write failure")

type failingData struct {
	recordio.WriterI
	failNext *bool
}

func (f *failingData) Write(rec []byte) (uint64, error) {
	if *f.failNext {
		*f.failNext = false
		return 0, errInjected
	}
	return f.WriterI.Write(rec)
}

type failingIndex struct {
	rProto.WriterI
	failNext *bool
}

func (f *failingIndex) Write(rec proto.Message) (uint64, error) {
	if *f.failNext {
		*f.failNext = false
		return 0, errInjected
	}
	return f.WriterI.Write(rec)
}

func wsGen(r *rand.Rand, thorough bool) wsCase {
	c := wsCase{DataComp: r.Intn(4), IndexComp: r.Intn(4), WriteBuf: pick(r, 16, 64, 128, 4096, 4<<20)}
	n := 1 + r.Intn(12)
	if thorough {
		n = 1 + r.Intn(40)
	}
	failRate := pick(r, 0, 10, 25, 50)
	cur := 0
	for i := 0; i < n; i++ {
		var op wsOp
		switch r.Intn(10) {
		case 0: // repeated key
			op.Key = keyOf(cur)
		case 1: // descending
			op.Key = keyOf(cur - 1 - r.Intn(3))
		case 2: // empty key
			op.Key = ""
		default:
			cur += 1 + r.Intn(3)
			op.Key = keyOf(cur)
		}
		op.VLen = pick(r, 0, 1, 5, 40, 127, 128, 300, 16384)
		op.Nil = r.Intn(6) == 0
		if r.Intn(100) < failRate {
			op.Fail = pick(r, "data", "index")
		}
		c.Ops = append(c.Ops, op)
	}
	c.Cmp = pick(r, 0, 0, 1, 2)
	return c
}

// keys of varying length whose byte order follows i
func keyOf(i int) string {
	if i < 0 {
		i = 0
	}
	s := fmt.Sprintf("%04d", i)
	if i%3 == 0 {
		s += "-long-suffix-to-change-the-key-length"
	}
	if i%5 == 0 {
		s = s[:3]
		s += string(rune('0' + i%10))
	}
	if i%7 == 3 {
		s += strings.Repeat("k", 124+i%3) // key lengths 127..130: around the varint boundary
	}
	return s
}

type wsV = dbViolation

func runWSCase(c *Ctx, wc wsCase, tape *simrt.Tape) (vs []wsV, evals int, accepted int) {
	dir := freshDir(c, "ws")
	defer os.RemoveAll(dir)
	w := simrt.NewWorld(dir, tape)
	w.Record = false
	defer simrt.Deactivate()
	defer w.ReleaseAll()
	add := func(sig, detail string) { vs = append(vs, wsV{sig, detail}) }
	wr, err := sstables.NewSSTableStreamWriter(
		sstables.WriteBasePath(dir), sstables.WithKeyComparator(oddCmp{wc.Cmp}),
		sstables.DataCompressionType(wc.DataComp), sstables.IndexCompressionType(wc.IndexComp),
		sstables.WriteBufferSizeBytes(wc.WriteBuf), sstables.BloomExpectedNumberOfElements(100))
	if err != nil {
		add("writer-error|"+normErr(err), err.Error())
		return
	}
	if err := wr.Open(); err != nil {
		add("writer-error|"+normErr(err), err.Error())
		return
	}
	var failData, failIndex bool
	wr.VerifWrapWriters(
		func(d recordio.WriterI) recordio.WriterI { return &failingData{d, &failData} },
		func(i rProto.WriterI) rProto.WriterI { return &failingIndex{i, &failIndex} })
	var acc []kv
	var lastAccepted []byte
	haveLast := false
	for i, op := range wc.Ops {
		key := []byte(op.Key)
		var val []byte
		if !op.Nil {
			val = make([]byte, op.VLen)
			for j := range val {
				val[j] = byte(i*7 + j)
			}
		}
		failData, failIndex = op.Fail == "data", op.Fail == "index"
		err := wr.WriteNext(key, val)
		evals++
		Beat()
		ascending := !haveLast || bytes.Compare(key, lastAccepted) > 0
		// an injected failure is only consumed when the call got that far
		injected := (op.Fail == "data" && !failData) || (op.Fail == "index" && !failIndex)
		failData, failIndex = false, false
		if err == nil {
			if !ascending {
				add("accepted-non-ascending-key", fmt.Sprintf("WriteNext #%d accepted key %q although the last accepted key is %q", i, op.Key, lastAccepted))
				return
			}
			if injected {
				add("injected-failure-absorbed", fmt.Sprintf("WriteNext #%d (key %q) returned nil although its %s append failed", i, op.Key, op.Fail))
				return
			}
			acc = append(acc, kv{key, val})
			lastAccepted, haveLast = key, true
		}
	}
	if err := wr.Close(); err != nil {
		add("close-error|"+normErr(err), err.Error())
		return
	}
	accepted = len(acc)
	// read back
	rd, err := sstables.NewSSTableReader(sstables.ReadBasePath(dir), sstables.ReadWithKeyComparator(oddCmp{wc.Cmp}))
	if err != nil {
		add("table-unreadable|"+normErr(err), fmt.Sprintf("the closed table cannot be opened: %v (accepted %d pairs)", err, len(acc)))
		return
	}
	defer rd.Close()
	it, err := rd.Scan()
	var got []kv
	if err == nil {
		got, err = drain(it, len(wc.Ops)+5)
	}
	evals++
	Beat()
	if err != nil {
		add("scan-error|"+normErr(err), err.Error())
		return
	}
	if d := sameKVs(got, acc); d != "" {
		add("content-differs-from-accepted-writes|scan", "Scan of the closed table: "+d)
		return
	}
	for _, p := range acc {
		v, err := rd.Get(p.k)
		if err != nil || !valEq(v, p.v) {
			add("content-differs-from-accepted-writes|get", fmt.Sprintf("Get(%q) = (%s, %v), accepted %s", p.k, recDesc(v), err, recDesc(p.v)))
			return
		}
	}
	// the data file itself must hold exactly the accepted values (no lingering rolled-back records)
	var raw [][]byte
	dr, err := recordio.NewFileReaderWithPath(filepath.Join(dir, sstables.DataFileName))
	if err == nil {
		err = dr.Open()
	}
	if err == nil {
		recs, _, _, rerr := readAllSeq(filepath.Join(dir, sstables.DataFileName), 4096)
		raw, err = recs, rerr
		_ = dr.Close()
	}
	if err != nil {
		add("data-file-unreadable|"+normErr(err), err.Error())
		return
	}
	if len(raw) != len(acc) {
		add("data-file-holds-rolled-back-records", fmt.Sprintf("data.rio holds %d records, %d writes were accepted", len(raw), len(acc)))
		return
	}
	// metadata
	md := rd.MetaData()
	nulls := 0
	for _, p := range acc {
		if p.v == nil {
			nulls++
		}
	}
	evals++
	Beat()
	if md.NumRecords != uint64(len(acc)) || md.NullValues != uint64(nulls) {
		add("metadata|counts", fmt.Sprintf("metadata says %d records / %d nil values, accepted %d / %d", md.NumRecords, md.NullValues, len(acc), nulls))
		return
	}
	var wantMin, wantMax []byte
	if len(acc) > 0 {
		wantMin, wantMax = acc[0].k, acc[len(acc)-1].k
	}
	if !bytes.Equal(md.MinKey, wantMin) || !bytes.Equal(md.MaxKey, wantMax) {
		add("metadata|min-max-key", fmt.Sprintf("metadata min/max key = %q / %q, smallest and largest accepted key = %q / %q", md.MinKey, md.MaxKey, wantMin, wantMax))
		return
	}
	fiD, _ := os.Stat(filepath.Join(dir, sstables.DataFileName))
	fiI, _ := os.Stat(filepath.Join(dir, sstables.IndexFileName))
	if md.DataBytes != uint64(fiD.Size()) || md.IndexBytes != uint64(fiI.Size()) || md.TotalBytes != md.DataBytes+md.IndexBytes {
		add("metadata|byte-sizes", fmt.Sprintf("metadata data/index/total bytes = %d/%d/%d, files have %d/%d", md.DataBytes, md.IndexBytes, md.TotalBytes, fiD.Size(), fiI.Size()))
		return
	}
	return
}

func wsShrinks(c wsCase) []wsCase {
	var out []wsCase
	for i := range c.Ops {
		d := c
		d.Ops = append(append([]wsOp{}, c.Ops[:i]...), c.Ops[i+1:]...)
		out = append(out, d)
	}
	for i, op := range c.Ops {
		if op.Fail != "" {
			d := c
			d.Ops = append([]wsOp{}, c.Ops...)
			d.Ops[i].Fail = ""
			out = append(out, d)
		}
	}
	if c.DataComp != 0 || c.IndexComp != 0 {
		d := c
		d.DataComp, d.IndexComp = 0, 0
		out = append(out, d)
	}
	return out
}

func writersimMain(c *Ctx) {
	for i := 0; c.TimeLeft(); i++ {
		seed := c.RunSeed(i)
		r := rand.New(rand.NewSource(seed))
		wc := wsGen(r, c.Thorough())
		c.Begin(seed, wc)
		vs, evals, _ := runWSCase(c, wc, simrt.NewTape(seed))
		c.Res.Runs++
		c.Res.Evaluations += evals
		nf := 0
		for _, op := range wc.Ops {
			if op.Fail != "" {
				nf++
				c.Count("fault:writenext-"+op.Fail+"-append", 1)
			}
		}
		if nf > 0 {
			c.Distinct(hash64("ws", mustJSON(wc)))
		}
		if len(c.Res.Seeds) < 8 {
			c.Res.Seeds = append(c.Res.Seeds, seed)
		}
		c.Sample(map[string]any{"run_seed": seed, "case": wc})
		for _, v := range vs {
			min := wc
			if c.matchKnown(c.Property, v.sig) == "" && c.seenSig[c.Property+"|"+v.sig] == 0 {
				min = shrinkLoop(wc, wsShrinks, func(cand wsCase) bool {
					cv, _, _ := runWSCase(c, cand, simrt.NewTape(seed))
					for _, x := range cv {
						if x.sig == v.sig {
							return true
						}
					}
					return false
				}, time.Now().Add(10*time.Second))
			}
			detail := v.detail
			cv, _, _ := runWSCase(c, min, simrt.NewTape(seed))
			for _, x := range cv {
				if x.sig == v.sig {
					detail = x.detail
				}
			}
			c.Report(Violation{Sig: v.sig, Detail: detail}, &ReplayFile{RunSeed: seed, Case: mustJSON(min), Minimised: true})
		}
	}
}

func writersimReplay(c *Ctx, rf *ReplayFile) []Violation {
	var wc wsCase
	if err := json.Unmarshal(rf.Case, &wc); err != nil {
		panic(err)
	}
	vs, _, _ := runWSCase(c, wc, simrt.NewTape(rf.RunSeed))
	var out []Violation
	for _, v := range vs {
		out = append(out, Violation{Property: rf.Property, Sig: v.sig, Detail: v.detail})
	}
	return out
}

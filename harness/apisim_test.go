package harness

import (
	"bytes"
	"encoding/json"
	"errors"
	"fmt"
	"math/rand"
	"os"
	"strings"
	"time"

	"github.com/thomasjungblut/go-sstables/simpledb"
	"verifsim/fsmodel"
	"verifsim/simrt"
)

// apisim (C17): programs mixing valid calls with nil / empty / non-UTF-8 / very
// long keys and values through both API flavours on twin databases. A call that
// returns an error must be a no-op - immediately, after flushes, after a clean
// reopen and on crash images taken right after the rejected call - and the two
// flavours must accept, reject and answer identically.

func init() {
	harnesses["apisim"] = apisimMain
	replayers["apisim"] = apisimReplay
}

type apiOp struct {
	Kind string `json:"k"`             // put | del | get | reopen
	Key  int    `json:"key"`           // index into apiKeys
	Val  int    `json:"val"`           // index into value kinds
	Nil  bool   `json:"nil,omitempty"` // bytes flavour passes nil instead of empty (key and/or value position that is empty)
	// reopen only: lifecycle misuse around the clean restart. 1: Put/Delete/Get on the closed handles; 2: the same on the
	// new, not yet opened handles (and Close of those); 4: a second Open of the open handles; 8: a second Close.
	// None of these calls has to fail, but one that returns an error must have no effect, and the flavours must agree.
	Misuse int `json:"misuse,omitempty"`
}

type apiCase struct {
	Memstore uint64  `json:"memstore"`
	Ops      []apiOp `json:"ops"`
	// fault arm: the FaultAt-th write system call on a WAL file fails (EIO, or a short write of Short bytes); -1 = none
	FaultAt int `json:"fault_at"`
	Short   int `json:"short,omitempty"`
	// EnableDirectIOWAL without EnableAsyncWAL: WriteSync is unsupported with direct I/O, so every mutation returns an
	// error by design - and must then have no effect either
	DirectSync bool `json:"direct_sync,omitempty"`
}

var apiKeys = []string{"", "a", "b", "k\xff\xfe\x00z", "a\x00", strings.Repeat("K", 3000), "ab"}

func apiValue(kind, id int) string {
	switch kind {
	case 0:
		return ""
	case 1:
		return fmt.Sprintf("v%d", id)
	case 2:
		return fmt.Sprintf("v%d\xff\xfe\x00bin", id)
	case 3:
		return fmt.Sprintf("v%d:", id) + strings.Repeat("x", 2000)
	}
	if kind == 5 {
		// a value larger than twice the write buffer of the WAL and of the table writers (4 MiB each), incompressible:
		// its record takes the "fill the buffer, flush, write the rest directly" path of the buffered writer in one call
		b := make([]byte, 9<<20)
		x := uint64(id)*0x9e3779b97f4a7c15 + 1
		for i := range b {
			x ^= x << 13
			x ^= x >> 7
			x ^= x << 17
			b[i] = byte(x >> 32)
		}
		return fmt.Sprintf("v%d:", id) + string(b)
	}
	return fmt.Sprintf("w%d", id)
}

func apiGen(r *rand.Rand, thorough bool) apiCase {
	c := apiCase{Memstore: pick(r, uint64(1), 32, 64, 200, 1<<20), FaultAt: -1}
	n := 4 + r.Intn(14)
	if thorough {
		n = 6 + r.Intn(40)
	}
	for i := 0; i < n; i++ {
		x := r.Intn(100)
		key := r.Intn(len(apiKeys))
		if r.Intn(3) != 0 && key == 0 {
			key = 1 + r.Intn(len(apiKeys)-1) // empty keys are the minority
		}
		switch {
		case x < 45:
			val := 1 + r.Intn(3)
			if r.Intn(5) == 0 {
				val = 0
			}
			c.Ops = append(c.Ops, apiOp{Kind: "put", Key: key, Val: val, Nil: r.Intn(2) == 0})
		case x < 60:
			c.Ops = append(c.Ops, apiOp{Kind: "del", Key: key, Nil: r.Intn(2) == 0})
		case x < 90:
			c.Ops = append(c.Ops, apiOp{Kind: "get", Key: key, Nil: r.Intn(2) == 0})
		default:
			op := apiOp{Kind: "reopen"}
			if r.Intn(2) == 0 {
				op.Misuse = 1 + r.Intn(15)
				op.Key = 1 + r.Intn(len(apiKeys)-1)
			}
			c.Ops = append(c.Ops, op)
		}
	}
	if r.Intn(25) == 0 {
		// one very long value somewhere in the program
		i := r.Intn(len(c.Ops))
		c.Ops[i] = apiOp{Kind: "put", Key: 1 + r.Intn(2), Val: 5}
	}
	return c
}

type apiViolation = dbViolation

func bytesArg(s string, useNil bool) []byte {
	if s == "" && useNil {
		return nil
	}
	return []byte(s)
}

func errClass(err error) string {
	switch {
	case err == nil:
		return "ok"
	case errors.Is(err, simpledb.ErrNotFound):
		return "notfound"
	}
	return "error"
}

// errKind tells the database's documented error values apart
func errKind(err error) string {
	switch {
	case err == nil:
		return "ok"
	case errors.Is(err, simpledb.ErrNotFound):
		return "notfound"
	case errors.Is(err, simpledb.ErrEmptyKeyValue):
		return "empty-key-or-value"
	case errors.Is(err, simpledb.ErrNotOpenedYet):
		return "not-opened-yet"
	case errors.Is(err, simpledb.ErrAlreadyClosed):
		return "already-closed"
	}
	return "error"
}

var apiDirectSync bool

func apiNew(dir string, mem uint64) (*simpledb.DB, error) {
	opts := []simpledb.ExtraOption{simpledb.MemstoreSizeBytes(mem), simpledb.CompactionRunInterval(time.Hour)}
	if apiDirectSync {
		opts = append(opts, simpledb.EnableDirectIOWAL())
	}
	return simpledb.NewSimpleDB(dir, opts...)
}

func apiOpen(dir string, mem uint64) (*simpledb.DB, error) {
	db, err := apiNew(dir, mem)
	if err != nil {
		return nil, err
	}
	if err := db.Open(); err != nil {
		return nil, err
	}
	return db, nil
}

// runAPIFaultCase: one database, one injected write failure on the WAL. Every call that returns an error must be a
// no-op: directly, and after the process is gone and the directory is recovered.
func runAPIFaultCase(c *Ctx, ac apiCase, tape *simrt.Tape) (vs []apiViolation, evals int, fired int) {
	dir := freshDir(c, "apiF")
	defer os.RemoveAll(dir)
	add := func(sig, detail string) { vs = append(vs, apiViolation{sig, detail}) }
	w := simrt.NewWorld(dir, tape)
	w.Record = false
	defer simrt.Deactivate()
	defer w.ReleaseAll()
	model := map[string]string{}
	closed := false
	bad := false
	_, serr, stopped := runInBubble(c.T, w, schedKnobs{WClient: 2, WFlusher: 2, WCompactor: 1}, func() {
		db, err := apiOpen(dir, ac.Memstore)
		if err != nil {
			add("open-error|"+normErr(err), err.Error())
			bad = true
			return
		}
		// arm the fault only after Open: the property is about calls on an open database
		w.FaultFilter = func(p simrt.OpPoint) bool { return p.Kind == "write" && strings.HasPrefix(p.Rel, "wal/") }
		w.FaultAt = map[int]simrt.FaultSpec{ac.FaultAt: {Errno: "EIO", Short: ac.Short}}
		sweep := func(when string) bool {
			for _, k := range apiKeys {
				if k == "" {
					continue
				}
				v, e := getB(db, []byte(k))
				evals++
				Beat()
				want, ok := model[k]
				if errClass(e) == "error" {
					add("get-error|"+normErr(e), fmt.Sprintf("%s: GetBytes(%q) failed: %v", when, head([]byte(k)), e))
					return false
				}
				if (e == nil) != ok || (ok && string(v) != want) {
					add("failed-call-had-an-effect|"+when, fmt.Sprintf("%s: GetBytes(%q) = (%q, %s), reference map (calls that returned an error are no-ops) says (%q, present=%v)", when, head([]byte(k)), head(v), errClass(e), head([]byte(want)), ok))
					return false
				}
			}
			return true
		}
		for i, op := range ac.Ops {
			k := apiKeys[op.Key]
			if k == "" {
				continue
			}
			var e error
			what := ""
			switch op.Kind {
			case "put":
				v := apiValue(max(op.Val, 1), i)
				if i%2 == 0 {
					e = db.Put(k, v)
				} else {
					e = putB(db, []byte(k), []byte(v))
				}
				if e == nil {
					model[k] = v
				}
				what = "put"
			case "del":
				if i%2 == 0 {
					e = db.Delete(k)
				} else {
					e = delB(db, []byte(k))
				}
				if e == nil {
					delete(model, k)
				}
				what = "delete"
			default:
				continue
			}
			evals++
			Beat()
			if e != nil && w.FaultsFired["write:EIO"] == 0 {
				add("api-error|"+what+":"+normErr(e), fmt.Sprintf("op %d %s(%q) failed although no fault had been injected yet: %v", i, what, head([]byte(k)), e))
				bad = true
				return
			}
			after := "directly-after-successful-call"
			if e != nil {
				after = "directly-after-failed-" + what
			}
			if !sweep(after) {
				bad = true
				return
			}
		}
		if err := db.Close(); err == nil {
			closed = true
		}
	})
	fired = w.FaultsFired["write:EIO"]
	if len(stopped) > 0 && fired == 0 {
		add("process-stopped|"+normErr(errors.New(firstLine(stopped[0]))), stopped[0])
		return
	}
	if serr != nil && fired == 0 {
		add("liveness|"+serr.Error(), serr.Error())
		return
	}
	if bad {
		return
	}
	_ = closed
	simrt.Deactivate()
	w.ReleaseAll()
	// the process is gone (cleanly closed or not): recover the directory as it is
	rec := recoverDir(dir, dbOpts{Memstore: ac.Memstore, Threshold: 10, MaxSize: 1 << 30, Ratio: 1, WriteBuf: 4096, ReadBuf: 4096, Compactions: true}, apiKeys[1:], simrt.NewTape(7), false)
	evals++
	Beat()
	if rec.openErr != nil {
		add("open-error-after-failed-call|"+normErr(rec.openErr), fmt.Sprintf("re-opening after a call failed with an injected WAL write error: %v", rec.openErr))
		return
	}
	for _, k := range apiKeys[1:] {
		want, ok := model[k]
		got, gok := rec.state[k]
		if ok != gok || want != got {
			add("failed-call-had-an-effect|after-recovery", fmt.Sprintf("after recovery key %q reads (%q, found=%v), reference map says (%q, present=%v)", head([]byte(k)), head([]byte(got)), gok, head([]byte(want)), ok))
			return
		}
	}
	return
}

func runAPICase(c *Ctx, ac apiCase, tape *simrt.Tape, count bool) (vs []apiViolation, evals int, imgs []string) {
	apiDirectSync = ac.DirectSync
	defer func() { apiDirectSync = false }()
	if ac.FaultAt >= 0 {
		v, e, _ := runAPIFaultCase(c, ac, tape)
		return v, e, nil
	}
	dirS := freshDir(c, "apiS") // string flavour
	dirB := freshDir(c, "apiB") // byte flavour (recorded: crash images are taken here)
	defer os.RemoveAll(dirS)
	defer os.RemoveAll(dirB)
	add := func(sig, detail string) { vs = append(vs, apiViolation{sig, detail}) }
	w := simrt.NewWorld(dirB, tape)
	defer simrt.Deactivate()
	defer w.ReleaseAll()
	model := map[string]string{}
	type snap struct {
		seq   int
		model map[string]string
		after string
	}
	var snaps []snap
	completed := false
	_, serr, stopped := runInBubble(c.T, w, schedKnobs{WClient: 2, WFlusher: 2, WCompactor: 1}, func() {
		var err error
		dbS, err := apiOpen(dirS, ac.Memstore)
		if err != nil {
			add("open-error|"+normErr(err), err.Error())
			return
		}
		dbB, err := apiOpen(dirB, ac.Memstore)
		if err != nil {
			add("open-error|"+normErr(err), err.Error())
			return
		}
		closeBoth := func() {
			_ = dbS.Close()
			_ = dbB.Close()
		}
		sweep := func(when string) bool {
			for _, k := range apiKeys {
				vB, eB := getB(dbB, bytesArg(k, false))
				vS, eS := dbS.Get(k)
				evals++
				Beat()
				want, ok := model[k]
				gotOK := eB == nil
				if errClass(eB) == "error" {
					add("get-error|"+normErr(eB), fmt.Sprintf("%s: GetBytes(%q) failed: %v", when, head([]byte(k)), eB))
					return false
				}
				if gotOK != ok || (ok && string(vB) != want) {
					add("effect-of-rejected-call-or-changed-read|"+when, fmt.Sprintf("%s: GetBytes(%q) = (%q, %s), reference map (rejected calls are no-ops) says (%q, present=%v)", when, head([]byte(k)), head(vB), errClass(eB), head([]byte(want)), ok))
					return false
				}
				if errClass(eS) != errClass(eB) || vS != string(vB) {
					add("flavours-disagree|get", fmt.Sprintf("%s: Get(%q) = (%q, %s) but GetBytes = (%q, %s)", when, head([]byte(k)), head([]byte(vS)), errClass(eS), head(vB), errClass(eB)))
					return false
				}
			}
			return true
		}
		for i, op := range ac.Ops {
			k := apiKeys[op.Key]
			desc := fmt.Sprintf("op %d %s(key=%q", i, op.Kind, head([]byte(k)))
			switch op.Kind {
			case "put":
				v := apiValue(op.Val, i)
				desc += fmt.Sprintf(", value=%q nil=%v)", head([]byte(v)), op.Nil)
				eS := dbS.Put(k, v)
				eB := putB(dbB, bytesArg(k, op.Nil), bytesArg(v, op.Nil))
				evals++
				Beat()
				if (eS == nil) != (eB == nil) {
					add("flavours-disagree|put", fmt.Sprintf("%s: Put returned %v, PutBytes returned %v", desc, eS, eB))
					closeBoth()
					return
				}
				if (k == "" || v == "") && eB == nil {
					add("documented-rejection-missing|put-empty", fmt.Sprintf("%s: an empty/nil key or value was accepted although the documentation says it returns an error", desc))
					closeBoth()
					return
				}
				if k != "" && v != "" && eB != nil && !ac.DirectSync {
					add("api-error|put:"+normErr(eB), fmt.Sprintf("%s: a valid call failed: %v", desc, eB))
					closeBoth()
					return
				}
				if eB == nil {
					model[k] = v
				} else {
					snaps = append(snaps, snap{w.Seq(), cloneMap(model), desc})
				}
			case "del":
				desc += fmt.Sprintf(" nil=%v)", op.Nil)
				eS := dbS.Delete(k)
				eB := delB(dbB, bytesArg(k, op.Nil))
				evals++
				Beat()
				if (eS == nil) != (eB == nil) {
					add("flavours-disagree|delete", fmt.Sprintf("%s: Delete returned %v, DeleteBytes returned %v", desc, eS, eB))
					closeBoth()
					return
				}
				if k != "" && eB != nil && !ac.DirectSync {
					add("api-error|delete:"+normErr(eB), fmt.Sprintf("%s: a valid call failed: %v", desc, eB))
					closeBoth()
					return
				}
				if eB == nil {
					delete(model, k)
				} else {
					snaps = append(snaps, snap{w.Seq(), cloneMap(model), desc})
				}
			case "get":
				vS, eS := dbS.Get(k)
				vB, eB := getB(dbB, bytesArg(k, op.Nil))
				evals++
				Beat()
				if errClass(eS) != errClass(eB) || !bytes.Equal([]byte(vS), vB) {
					add("flavours-disagree|get", fmt.Sprintf("%s): Get = (%q, %s), GetBytes = (%q, %s)", desc, head([]byte(vS)), errClass(eS), head(vB), errClass(eB)))
					closeBoth()
					return
				}
			case "reopen":
				// misuse calls: valid arguments on a handle in the wrong state. A call that returns an error must have
				// no effect (checked by the sweeps and crash images that follow); one that is accepted counts.
				misuse := func(hS, hB *simpledb.DB, state string) bool {
					v := apiValue(1, i)
					desc := fmt.Sprintf("op %d on a %s handle: ", i, state)
					eS, eB := hS.Put(k, v), putB(hB, []byte(k), []byte(v))
					evals++
					Beat()
					if (eS == nil) != (eB == nil) {
						add("flavours-disagree|put-"+state, fmt.Sprintf("%sPut returned %v, PutBytes returned %v", desc, eS, eB))
						return false
					}
					if eB == nil {
						model[k] = v
					} else {
						snaps = append(snaps, snap{w.Seq(), cloneMap(model), desc + "PutBytes"})
					}
					eS, eB = hS.Delete(apiKeys[1]), delB(hB, []byte(apiKeys[1]))
					evals++
					Beat()
					if (eS == nil) != (eB == nil) {
						add("flavours-disagree|delete-"+state, fmt.Sprintf("%sDelete returned %v, DeleteBytes returned %v", desc, eS, eB))
						return false
					}
					if eB == nil {
						delete(model, apiKeys[1])
					} else {
						snaps = append(snaps, snap{w.Seq(), cloneMap(model), desc + "DeleteBytes"})
					}
					vS, eS := hS.Get(k)
					vB, eB := getB(hB, []byte(k))
					evals++
					Beat()
					if errClass(eS) != errClass(eB) || !bytes.Equal([]byte(vS), vB) {
						add("flavours-disagree|get-"+state, fmt.Sprintf("%sGet = (%q, %s), GetBytes = (%q, %s)", desc, head([]byte(vS)), errClass(eS), head(vB), errClass(eB)))
						return false
					}
					// an invalid call on such a handle: whichever of its two reasons the database reports, both flavours
					// report the same one for the same bytes
					for _, bad := range [][2]string{{"", "v"}, {k, ""}, {"", ""}} {
						eS, eB := hS.Put(bad[0], bad[1]), putB(hB, bytesArg(bad[0], op.Nil), bytesArg(bad[1], op.Nil))
						evals++
						Beat()
						if errKind(eS) != errKind(eB) {
							add("flavours-disagree|put-invalid-"+state, fmt.Sprintf("%sPut(%q, %q) returned %v, PutBytes of the same bytes returned %v", desc, head([]byte(bad[0])), head([]byte(bad[1])), eS, eB))
							return false
						}
					}
					return true
				}
				if op.Misuse&4 != 0 {
					eS, eB := dbS.Open(), dbB.Open()
					evals++
					Beat()
					c.Count("probe:second-open-of-an-open-database", 1)
					if (eS == nil) != (eB == nil) {
						add("flavours-disagree|second-open", fmt.Sprintf("op %d: second Open returned %v and %v on twin databases", i, eS, eB))
						closeBoth()
						return
					}
					if eB != nil {
						snaps = append(snaps, snap{w.Seq(), cloneMap(model), fmt.Sprintf("op %d: second Open", i)})
					}
					if !sweep("after-second-open") {
						closeBoth()
						return
					}
				}
				e1, e2 := dbS.Close(), dbB.Close()
				if e1 != nil || e2 != nil {
					add("close-error|"+normErr(errors.Join(e1, e2)), fmt.Sprintf("op %d: Close failed: %v %v", i, e1, e2))
					return
				}
				if op.Misuse&8 != 0 {
					e1, e2 := dbS.Close(), dbB.Close()
					evals++
					Beat()
					c.Count("probe:second-close", 1)
					if (e1 == nil) != (e2 == nil) {
						add("flavours-disagree|second-close", fmt.Sprintf("op %d: second Close returned %v and %v on twin databases", i, e1, e2))
						return
					}
					if e2 != nil {
						snaps = append(snaps, snap{w.Seq(), cloneMap(model), fmt.Sprintf("op %d: second Close", i)})
					}
				}
				if op.Misuse&1 != 0 {
					c.Count("probe:calls-on-a-closed-database", 1)
					if !misuse(dbS, dbB, "closed") {
						return
					}
				}
				if op.Misuse&2 != 0 {
					c.Count("probe:calls-on-a-not-yet-opened-database", 1)
					nS, errS := apiNew(dirS, ac.Memstore)
					nB, errB := apiNew(dirB, ac.Memstore)
					if errS != nil || errB != nil {
						add("reopen-error|"+normErr(errors.Join(errS, errB)), fmt.Sprintf("op %d: NewSimpleDB after a clean Close failed: %v %v", i, errS, errB))
						return
					}
					if !misuse(nS, nB, "not-yet-opened") {
						return
					}
					e1, e2 := nS.Close(), nB.Close()
					evals++
					Beat()
					if (e1 == nil) != (e2 == nil) {
						add("flavours-disagree|close-not-yet-opened", fmt.Sprintf("op %d: Close of a not yet opened database returned %v and %v on twin databases", i, e1, e2))
						return
					}
					if e2 != nil {
						snaps = append(snaps, snap{w.Seq(), cloneMap(model), fmt.Sprintf("op %d: Close of a not yet opened database", i)})
					}
				}
				dbS, err = apiOpen(dirS, ac.Memstore)
				if err == nil {
					dbB, err = apiOpen(dirB, ac.Memstore)
				}
				if err != nil {
					add("reopen-error|"+normErr(err), fmt.Sprintf("op %d: re-opening after a clean Close failed: %v", i, err))
					return
				}
				if !sweep(fmt.Sprintf("after-clean-reopen")) {
					closeBoth()
					return
				}
			}
			if op.Kind != "get" && op.Kind != "reopen" {
				if !sweep("directly") {
					closeBoth()
					return
				}
			}
		}
		e1, e2 := dbS.Close(), dbB.Close()
		if e1 != nil || e2 != nil {
			add("close-error|"+normErr(errors.Join(e1, e2)), fmt.Sprintf("final Close failed: %v %v", e1, e2))
			return
		}
		completed = true
	})
	if len(stopped) > 0 {
		add("process-stopped|"+normErr(errors.New(firstLine(stopped[0]))), "a background task stopped the process: "+stopped[0])
		return
	}
	if serr != nil {
		add("liveness|"+serr.Error(), serr.Error())
		return
	}
	if !completed {
		return
	}
	trace := w.Trace()
	simrt.Deactivate()
	w.ReleaseAll()
	// final clean reopen of the byte flavour directory, plus crash images right after each rejected call
	final := recoverDir(dirB, dbOpts{Memstore: ac.Memstore, Threshold: 10, MaxSize: 1 << 30, Ratio: 1, WriteBuf: 4096, ReadBuf: 4096, Compactions: true}, apiKeys, simrt.NewTape(1), false)
	evals++
	Beat()
	if v := judgeExact(final, model, "after-final-clean-reopen"); v != nil {
		vs = append(vs, *v)
		return
	}
	m := fsmodel.New()
	pos := 0
	for _, sn := range snaps {
		for ; pos < len(trace) && trace[pos].Seq <= sn.seq; pos++ {
			if err := m.Apply(trace[pos]); err != nil {
				panic("model fidelity: " + err.Error())
			}
		}
		rec := recoverImage(c, m, dbOpts{Memstore: ac.Memstore, Threshold: 10, MaxSize: 1 << 30, Ratio: 1, WriteBuf: 4096, ReadBuf: 4096, Compactions: true}, apiKeys, simrt.NewTape(int64(sn.seq)), false)
		evals++
		Beat()
		imgs = append(imgs, m.Hash())
		if v := judgeExact(rec, sn.model, "crash-image-after-rejected-call"); v != nil {
			v.detail += " [image taken right after " + sn.after + " returned an error]"
			vs = append(vs, *v)
			return
		}
	}
	return
}

func cloneMap(m map[string]string) map[string]string {
	o := map[string]string{}
	for k, v := range m {
		o[k] = v
	}
	return o
}

func judgeExact(rec *recovered, model map[string]string, when string) *apiViolation {
	if rec.openErr != nil {
		return &apiViolation{"open-error-" + when + "|" + normErr(rec.openErr), fmt.Sprintf("%s: Open fails: %v", when, rec.openErr)}
	}
	if rec.getErr != nil {
		return &apiViolation{"get-error-" + when + "|" + normErr(rec.getErr), fmt.Sprintf("%s: %v", when, rec.getErr)}
	}
	for _, k := range apiKeys {
		want, ok := model[k]
		got, gok := rec.state[k]
		if ok != gok || want != got {
			return &apiViolation{"effect-of-rejected-call-or-changed-read|" + when, fmt.Sprintf("%s: key %q reads (%q, found=%v), reference map says (%q, present=%v)", when, head([]byte(k)), head([]byte(got)), gok, head([]byte(want)), ok)}
		}
	}
	return nil
}

func apiShrinks(c apiCase) []apiCase {
	var out []apiCase
	for i := range c.Ops {
		d := c
		d.Ops = append(append([]apiOp{}, c.Ops[:i]...), c.Ops[i+1:]...)
		out = append(out, d)
	}
	return out
}

func apisimMain(c *Ctx) {
	for i := 0; c.TimeLeft(); i++ {
		seed := c.RunSeed(i)
		r := rand.New(rand.NewSource(seed))
		ac := apiGen(r, c.Thorough())
		if c.Mode != "fault" && r.Intn(10) == 0 {
			ac.DirectSync = true
		}
		if c.Mode == "fault" {
			ac.FaultAt = r.Intn(2 * len(ac.Ops))
			if r.Intn(3) == 0 {
				ac.Short = 1 + r.Intn(20)
			}
		}
		c.Begin(seed, ac)
		vs, evals, imgs := runAPICase(c, ac, simrt.NewTape(seed), true)
		c.Res.Runs++
		c.Res.Evaluations += evals
		c.RunHash(nil, seed, evals, strings.Join(imgs, ","), len(vs))
		rejected := 0
		for _, op := range ac.Ops {
			if op.Kind == "put" && (apiKeys[op.Key] == "" || op.Val == 0) {
				rejected++
			}
		}
		c.Count("probe:programs-with-invalid-calls", min(rejected, 1))
		c.Count("probe:crash-images-after-rejected-call", len(imgs))
		if rejected > 0 {
			c.Distinct(hash64("api", mustJSON(ac)))
		}
		if len(c.Res.Seeds) < 8 {
			c.Res.Seeds = append(c.Res.Seeds, seed)
		}
		c.Sample(map[string]any{"run_seed": seed, "case": ac})
		for _, v := range vs {
			min := ac
			if c.matchKnown(c.Property, v.sig) == "" && c.seenSig[c.Property+"|"+v.sig] == 0 {
				min = shrinkLoop(ac, apiShrinks, func(cand apiCase) bool {
					cv, _, _ := runAPICase(c, cand, simrt.NewTape(seed), false)
					for _, x := range cv {
						if x.sig == v.sig {
							return true
						}
					}
					return false
				}, time.Now().Add(15*time.Second))
			}
			detail := v.detail
			cv, _, _ := runAPICase(c, min, simrt.NewTape(seed), false)
			for _, x := range cv {
				if x.sig == v.sig {
					detail = x.detail
				}
			}
			c.Report(Violation{Sig: v.sig, Detail: detail}, &ReplayFile{RunSeed: seed, Case: mustJSON(min), Minimised: true})
		}
	}
}

func apisimReplay(c *Ctx, rf *ReplayFile) []Violation {
	var ac apiCase
	if err := json.Unmarshal(rf.Case, &ac); err != nil {
		panic(err)
	}
	vs, _, _ := runAPICase(c, ac, simrt.NewTape(rf.RunSeed), false)
	var out []Violation
	for _, v := range vs {
		out = append(out, Violation{Property: rf.Property, Sig: v.sig, Detail: v.detail})
	}
	return out
}

// The byte flavour is always called the way a caller with a reusable buffer would call it: the slices handed in are
// overwritten as soon as the call has returned, and a returned slice is copied and then overwritten too. The database
// must have taken what it needs by then (the string flavour cannot share memory with its caller at all).
func scribble(b []byte) {
	for i := range b {
		b[i] = 0xEE
	}
}

func putB(db *simpledb.DB, k, v []byte) error {
	e := db.PutBytes(k, v)
	scribble(k)
	scribble(v)
	return e
}

func delB(db *simpledb.DB, k []byte) error {
	e := db.DeleteBytes(k)
	scribble(k)
	return e
}

func getB(db *simpledb.DB, k []byte) ([]byte, error) {
	v, e := db.GetBytes(k)
	scribble(k)
	var out []byte
	if v != nil {
		out = append([]byte{}, v...)
	}
	scribble(v)
	return out, e
}

package harness

import (
	"bytes"
	"encoding/json"
	"fmt"
	"math/rand"
	"os"
	"path/filepath"
	"strings"
	"time"

	"github.com/thomasjungblut/go-sstables/recordio"
	"github.com/thomasjungblut/go-sstables/wal"
	"verifsim/fsmodel"
	"verifsim/simrt"
)

// walsim (C07): programs of Append / AppendSync / Rotate / Close against package
// wal on the recording disk; the recorded trace is branched at every
// file-system boundary into a crash image on which Replay must succeed and
// deliver a prefix that contains every synchronous append that had returned.

func init() {
	harnesses["walsim"] = walsimMain
	replayers["walsim"] = walsimReplay
}

type walOp struct {
	Kind string `json:"kind"` // append | sync | rotate
	Size int    `json:"size,omitempty"`
	Nil  bool   `json:"nil,omitempty"`
}

type walCase struct {
	MaxFileSize uint64  `json:"max_file_size"`
	BufSize     int     `json:"buf_size"`
	Compression int     `json:"compression"`
	Ops         []walOp `json:"ops"`
	NoClose     bool    `json:"no_close,omitempty"`
	OddName     bool    `json:"odd_name,omitempty"` // directory names with glob metacharacters etc.
	DirectIO    bool    `json:"direct_io,omitempty"` // block aligned writer (O_DIRECT itself is a declared stub); no sync appends by design
	ReadBuf     int     `json:"read_buf,omitempty"`  // buffer of the reader factory (0: the library's default reader)
	Symlink     bool    `json:"symlink,omitempty"`   // the log's base path is a symbolic link to its directory
}

func walGen(r *rand.Rand, thorough bool) walCase {
	c := walCase{
		MaxFileSize: pick(r, uint64(40), 100, 300, 1000, 5000, 1<<20),
		BufSize:     pick(r, 16, 32, 64, 100, 256, 1024, 4096, 65536),
		Compression: pick(r, recordio.CompressionTypeNone, recordio.CompressionTypeNone, recordio.CompressionTypeSnappy, recordio.CompressionTypeGZIP, recordio.CompressionTypeLzw),
	}
	n := 1 + r.Intn(12)
	if thorough {
		n = 1 + r.Intn(30)
	}
	syncBias := r.Intn(4) // 0: mostly async ... 3: mostly sync
	if r.Intn(8) == 0 {
		c.DirectIO = true
		c.BufSize = pick(r, 4096, 8192)
		c.MaxFileSize = pick(r, uint64(5000), 20000, 1<<20)
		syncBias = 0
	}
	for i := 0; i < n; i++ {
		x := r.Intn(10)
		switch {
		case x == 0:
			c.Ops = append(c.Ops, walOp{Kind: "rotate"})
		default:
			kind := "append"
			if r.Intn(4) < syncBias+1 && syncBias > 0 {
				kind = "sync"
			}
			size := pick(r, 0, 1, 5, 8, 20, 50, 100, 127, 128, 129, 300, 1500)
			if r.Intn(25) == 0 {
				size = pick(r, 16383, 16384, 16385, 65535, 65536)
			}
			if r.Intn(8) == 0 {
				size = int(c.MaxFileSize) + r.Intn(20) // larger than the file limit
			}
			if r.Intn(8) == 0 {
				size = c.BufSize + r.Intn(3) - 1 // around the buffer size
				if size < 0 {
					size = 0
				}
			}
			c.Ops = append(c.Ops, walOp{Kind: kind, Size: size})
		}
	}
	// replay through a reader factory with a small buffer in half of the cases: records larger than the read buffer
	c.ReadBuf = pick(r, 0, 0, 0, 64, 128, 512, 4096)
	c.Symlink = r.Intn(8) == 0
	if r.Intn(30) == 0 {
		// many files: every append rotates; "any number of rotations" must also hold for a process with an
		// ordinary descriptor limit (the replay runs under a simulated limit of 16 open files)
		c.MaxFileSize = 40
		c.DirectIO = false
		c.Ops = nil
		for i, n := 0, 22+r.Intn(10); i < n; i++ {
			c.Ops = append(c.Ops, walOp{Kind: pick(r, "append", "sync"), Size: 50 + r.Intn(40)})
		}
	}
	c.OddName = r.Intn(8) == 0
	return c
}

func walRecord(i, size int) []byte {
	b := make([]byte, size)
	tag := fmt.Sprintf("#%d#", i)
	rr := rand.New(rand.NewSource(int64(i)*7919 + int64(size)))
	for j := range b {
		b[j] = byte(rr.Intn(256))
	}
	copy(b, tag)
	return b
}

type walRun struct {
	appended [][]byte // in order
	isSync   []bool
	inv, ret []int // event seq
	errs     []error
	trace    []simrt.Event
	closeErr error
	closeSeq int
}

// walBase is the path the log is opened by: the directory itself, or a symbolic link to it
func walBase(dir string, c walCase) string {
	if !c.Symlink {
		return dir
	}
	link := dir + ".lnk"
	if _, err := os.Lstat(link); err != nil {
		if err := os.Symlink(dir, link); err != nil {
			panic(err)
		}
	}
	return link
}

func walOptions(dir string, c walCase) (*wal.Options, error) {
	return wal.NewWriteAheadLogOptions(
		wal.BasePath(walBase(dir, c)),
		wal.MaximumWalFileSizeBytes(c.MaxFileSize),
		wal.WriterFactory(func(path string) (recordio.WriterI, error) {
			if c.DirectIO {
				return recordio.NewFileWriter(recordio.Path(path), recordio.BufferSizeBytes(c.BufSize), recordio.CompressionType(c.Compression), recordio.DirectIO())
			}
			return recordio.NewFileWriter(recordio.Path(path), recordio.BufferSizeBytes(c.BufSize), recordio.CompressionType(c.Compression))
		}),
		wal.ReaderFactory(func(path string) (recordio.ReaderI, error) {
			if c.ReadBuf > 0 {
				return recordio.NewFileReader(recordio.ReaderPath(path), recordio.ReaderBufferSizeBytes(c.ReadBuf))
			}
			return recordio.NewFileReaderWithPath(path)
		}),
	)
}

func walExec(dir string, c walCase, tape *simrt.Tape) (*walRun, error) {
	w := simrt.NewWorld(dir, tape)
	if c.Symlink {
		w.Alias = walBase(dir, c)
	}
	defer simrt.Deactivate()
	run := &walRun{}
	opts, err := walOptions(dir, c)
	if err != nil {
		return nil, err
	}
	log, err := wal.NewWriteAheadLog(opts)
	if err != nil {
		return nil, fmt.Errorf("NewWriteAheadLog: %w", err)
	}
	for i, op := range c.Ops {
		switch op.Kind {
		case "rotate":
			if _, err := log.Rotate(); err != nil {
				return nil, fmt.Errorf("op %d Rotate: %w", i, err)
			}
		default:
			rec := walRecord(len(run.appended), op.Size)
			inv := w.Emit(simrt.Event{Kind: simrt.EvInvoke, N: int64(len(run.appended))})
			if op.Kind == "sync" {
				err = log.AppendSync(rec)
			} else {
				err = log.Append(rec)
			}
			ret := w.Emit(simrt.Event{Kind: simrt.EvReturn, N: int64(len(run.appended))})
			if err != nil {
				return nil, fmt.Errorf("op %d %s(%d bytes): %w", i, op.Kind, op.Size, err)
			}
			run.appended = append(run.appended, rec)
			run.isSync = append(run.isSync, op.Kind == "sync")
			run.inv = append(run.inv, inv)
			run.ret = append(run.ret, ret)
		}
	}
	if !c.NoClose {
		run.closeErr = log.Close()
		run.closeSeq = w.Emit(simrt.Event{Kind: simrt.EvMark, Note: "closed"})
	}
	run.trace = w.Trace()
	return run, nil
}

func walReplayDir(dir string, c walCase) ([][]byte, error) {
	if c.Symlink {
		defer os.Remove(dir + ".lnk")
	}
	opts, err := walOptions(dir, c)
	if err != nil {
		return nil, err
	}
	rp, err := wal.NewReplayer(opts)
	if err != nil {
		return nil, err
	}
	var got [][]byte
	err = rp.Replay(func(rec []byte) error {
		got = append(got, append([]byte{}, rec...))
		return nil
	})
	return got, err
}

func walFileCount(dir string) int {
	es, _ := os.ReadDir(dir)
	return len(es)
}

type walViolation struct {
	sig, detail string
}

// walCheck runs one case and returns violations (empty if all fine).
func walCheck(c *Ctx, wc walCase, tape *simrt.Tape, count bool) []walViolation {
	c.oddNames = wc.OddName
	dir := freshDir(c, "wal")
	defer os.RemoveAll(dir)
	run, err := walExec(dir, wc, tape)
	if err != nil {
		return []walViolation{{"api-error|" + normErr(err), "a valid call failed on the fault-free disk: " + err.Error()}}
	}
	var out []walViolation
	if run.closeErr != nil {
		out = append(out, walViolation{"api-error|close:" + normErr(run.closeErr), run.closeErr.Error()})
	}
	// (a) after Close: replay equals the appended sequence
	if !wc.NoClose {
		got, err := walReplayDir(dir, wc)
		if err != nil {
			out = append(out, walViolation{"replay-after-close|error:" + normErr(err), "Replay after Close failed: " + err.Error()})
		} else if d := seqDiff(got, run.appended, len(run.appended)); d != "" {
			out = append(out, walViolation{"replay-after-close|content", "Replay after Close differs: " + d})
		}
		// the same replay in a process that may hold 16 files open at a time
		if nfiles := walFileCount(dir); nfiles > 20 && len(out) == 0 {
			lw := simrt.NewWorld(dir, simrt.NewTape(1))
			lw.Record = false
			lw.FDLimit = 16
			if wc.Symlink {
				lw.Alias = walBase(dir, wc)
			}
			got, err := walReplayDir(dir, wc)
			maxOpen := lw.MaxHandles
			simrt.Deactivate()
			lw.ReleaseAll()
			if count {
				c.Count("probe:replay-under-descriptor-limit", 1)
				c.CountMax("max:files-open-during-replay", maxOpen)
			}
			if err != nil {
				out = append(out, walViolation{"replay-descriptor-limit|error:" + normErr(err), fmt.Sprintf("Replay of an intact log of %d files fails in a process limited to 16 open files (it had %d open): %v", nfiles, maxOpen, err)})
			} else if d := seqDiff(got, run.appended, len(run.appended)); d != "" {
				out = append(out, walViolation{"replay-descriptor-limit|content", "Replay under a descriptor limit differs: " + d})
			}
		}
	}
	// model fidelity
	m := fsmodel.New()
	var mut []int
	for i, e := range run.trace {
		if simrt.Mutating(e.Kind) {
			mut = append(mut, i)
		}
	}
	// (c) trace monitor: each AppendSync window contains a write to a wal file followed by an fsync of that file
	for i := range run.appended {
		if !run.isSync[i] {
			continue
		}
		// the record goes to the file that receives the last write of the window (a rotation inside the
		// window first flushes the old file, which carries no obligation); that file must be fsynced afterwards
		lastWrite := map[string]int{}
		fsynced := map[string]int{}
		lastPath, lastSeq := "", -1
		for _, e := range run.trace {
			if e.Seq <= run.inv[i] || e.Seq >= run.ret[i] {
				continue
			}
			if e.Kind == simrt.EvWrite {
				lastWrite[e.Path] = e.Seq
				lastPath, lastSeq = e.Path, e.Seq
			}
			if e.Kind == simrt.EvFsync {
				fsynced[e.Path] = e.Seq
			}
		}
		ok := lastSeq >= 0 && fsynced[lastPath] > lastSeq
		if !ok {
			out = append(out, walViolation{"sync-window|no-fsync-after-write", fmt.Sprintf("AppendSync #%d returned without write+fsync inside its call window (writes=%v fsyncs=%v)", i, lastWrite, fsynced)})
			break
		}
	}
	// (b) every boundary
	seen := map[string]bool{}
	for bi := 0; bi <= len(mut); bi++ {
		// image after bi mutating events; cutoff = just before the next mutating event
		if bi > 0 {
			if err := m.Apply(run.trace[mut[bi-1]]); err != nil {
				panic("model fidelity: " + err.Error())
			}
		}
		cutoff := 1 << 60
		if bi < len(mut) {
			cutoff = run.trace[mut[bi]].Seq
		}
		needSync := -1 // highest index of a sync append that returned before cutoff
		for i := range run.appended {
			if run.isSync[i] && run.ret[i] < cutoff {
				needSync = i
			}
		}
		invoked := 0
		for i := range run.appended {
			if run.inv[i] < cutoff {
				invoked = i + 1
			}
		}
		h := m.Hash() + fmt.Sprint(needSync)
		if seen[h] {
			continue
		}
		seen[h] = true
		img := freshDir(c, "img")
		if err := m.Materialize(img); err != nil {
			panic(err)
		}
		got, err := walReplayDir(img, wc)
		tags := walImageTags(m)
		if count {
			c.Res.Evaluations++
			Beat()
			c.Distinct(hash64("wal", m.Hash()))
			for _, t := range strings.Split(tags, ",") {
				if t != "" {
					c.Count("probe:"+t, 1)
				}
			}
		}
		os.RemoveAll(img)
		where := "boundary after " + evDesc(run.trace, mut, bi-1) + " / before " + evDesc(run.trace, mut, bi)
		if err != nil {
			out = append(out, walViolation{"crash-replay|error:" + normErr(err) + "|" + tags, fmt.Sprintf("Replay on crash image failed (%s): %v", where, err)})
			continue
		}
		if d := seqDiff(got, run.appended, invoked); d != "" {
			out = append(out, walViolation{"crash-replay|not-a-prefix|" + tags, fmt.Sprintf("Replay on crash image is not a prefix (%s): %s", where, d)})
			continue
		}
		if len(got) < needSync+1 {
			out = append(out, walViolation{"crash-replay|lost-synced|" + tags, fmt.Sprintf("Replay on crash image lost a synced append (%s): got %d records, AppendSync #%d had returned", where, len(got), needSync)})
		}
	}
	if count {
		real, err := fsmodel.FromDir(dir)
		if err == nil {
			if d := fsmodel.Diff(m, real); d != "" {
				panic("model fidelity: final image differs from real directory: " + d)
			}
		}
	}
	return dedupWal(out)
}

func dedupWal(vs []walViolation) []walViolation {
	seen := map[string]bool{}
	var out []walViolation
	for _, v := range vs {
		if !seen[v.sig] {
			seen[v.sig] = true
			out = append(out, v)
		}
	}
	return out
}

func walImageTags(m *fsmodel.FS) string {
	var tags []string
	files := 0
	for _, p := range m.Paths() {
		if strings.HasSuffix(p, ".wal") {
			files++
			if m.Size(p) < recordio.FileHeaderSizeBytes {
				tags = append(tags, "wal-file-without-header")
			}
		}
	}
	if files >= 2 {
		tags = append(tags, "multi-wal-files")
	}
	return strings.Join(uniq(tags), ",")
}

func uniq(xs []string) []string {
	seen := map[string]bool{}
	var out []string
	for _, x := range xs {
		if !seen[x] {
			seen[x] = true
			out = append(out, x)
		}
	}
	return out
}

func evDesc(trace []simrt.Event, mut []int, i int) string {
	if i < 0 {
		return "<start>"
	}
	if i >= len(mut) {
		return "<end>"
	}
	e := trace[mut[i]]
	switch e.Kind {
	case simrt.EvWrite:
		return fmt.Sprintf("#%d write(%s, off=%d, %d bytes)", e.Seq, e.Path, e.Off, len(e.Data))
	case simrt.EvRename:
		return fmt.Sprintf("#%d rename(%s -> %s)", e.Seq, e.Path, e.Path2)
	case simrt.EvTruncate:
		return fmt.Sprintf("#%d truncate(%s, %d)", e.Seq, e.Path, e.N)
	}
	return fmt.Sprintf("#%d %s(%s)", e.Seq, e.Kind, e.Path)
}

// seqDiff checks that got is a prefix of want[:limit]; returns a description of the first problem or "".
func seqDiff(got, want [][]byte, limit int) string {
	if len(got) > limit {
		return fmt.Sprintf("%d records delivered but only %d appended so far", len(got), limit)
	}
	for i := range got {
		if !bytes.Equal(got[i], want[i]) {
			return fmt.Sprintf("record %d differs: got %d bytes %q.., want %d bytes %q..", i, len(got[i]), head(got[i]), len(want[i]), head(want[i]))
		}
	}
	return ""
}

func head(b []byte) string {
	if len(b) > 12 {
		b = b[:12]
	}
	return string(b)
}

func walShrinks(c walCase) []walCase {
	var out []walCase
	for i := range c.Ops {
		d := c
		d.Ops = append(append([]walOp{}, c.Ops[:i]...), c.Ops[i+1:]...)
		out = append(out, d)
	}
	for i, op := range c.Ops {
		if op.Size > 1 {
			d := c
			d.Ops = append([]walOp{}, c.Ops...)
			d.Ops[i].Size = op.Size / 2
			out = append(out, d)
		}
	}
	if c.Compression != 0 {
		d := c
		d.Compression = 0
		out = append(out, d)
	}
	return out
}

func walsimMain(c *Ctx) {
	for i := 0; c.TimeLeft(); i++ {
		seed := c.RunSeed(i)
		r := rand.New(rand.NewSource(seed))
		wc := walGen(r, c.Thorough())
		c.Res.Runs++
		if len(c.Res.Seeds) < 8 {
			c.Res.Seeds = append(c.Res.Seeds, seed)
		}
		c.Sample(map[string]any{"run_seed": seed, "case": wc})
		tape := simrt.NewTape(seed)
		c.Begin(seed, wc)
		vs := walCheck(c, wc, tape, true)
		c.RunHash(nil, mustJSON(wc), len(vs), c.Res.Evaluations, len(c.distinct))
		for _, v := range vs {
			// minimise
			min := shrinkLoop(wc, walShrinks, func(cand walCase) bool {
				for _, x := range walCheck(c, cand, simrt.NewTape(seed), false) {
					if x.sig == v.sig {
						return true
					}
				}
				return false
			}, time.Now().Add(20*time.Second))
			detail := v.detail
			for _, x := range walCheck(c, min, simrt.NewTape(seed), false) {
				if x.sig == v.sig {
					detail = x.detail
				}
			}
			c.Report(Violation{Sig: v.sig, Detail: detail}, &ReplayFile{RunSeed: seed, Case: mustJSON(min), Minimised: true})
		}
	}
}

func walsimReplay(c *Ctx, rf *ReplayFile) []Violation {
	var wc walCase
	if err := json.Unmarshal(rf.Case, &wc); err != nil {
		panic(err)
	}
	var out []Violation
	for _, v := range walCheck(c, wc, simrt.NewTape(rf.RunSeed), false) {
		out = append(out, Violation{Property: rf.Property, Sig: v.sig, Detail: v.detail})
	}
	return out
}

var _ = filepath.Join

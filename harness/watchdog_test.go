package harness

import (
	"strings"
	"encoding/json"
	"fmt"
	"os"
	"path/filepath"
	"runtime"
	"runtime/metrics"
	"sync"
	"sync/atomic"
	"time"

	"verifsim/simrt"
)

// ---------------------------------------------------------------------------
// Watchdog: a call into the code under test that never returns, or that allocates without bound, is a violation of
// the property the run was deciding (the operation did not produce its answer), not infrastructure trouble. A real
// goroutine outside every bubble watches the run that is in flight; when it fires it writes the worker's result with
// that one violation and a replay file (case + run seed; the tape is regenerated from the seed) and ends the process.
//
// Both limits are far outside what the unchanged tree needs (see the max:heap-mb / max:rss-mb / max:run-wall-s
// counters in the evidence). The memory limit is on heap objects that survive a full collection, not on the resident set: crash-image arms with
// multi-megabyte values legitimately reach a resident set of 3 GB (freed but not yet returned memory).
// ---------------------------------------------------------------------------

type watchState struct {
	mu          sync.Mutex
	seed        int64
	caseJSON    json.RawMessage
	began       time.Time
	runBegan    time.Time
	heapAtBegin int         // what earlier runs left behind (goroutines of torn-down runs keep their buffers) does not count
	replay      *ReplayFile // replay mode: the file being replayed
	curPath     string
}

var watch watchState

// Begin marks the start of one simulated run: the watchdog attributes a hang or runaway allocation to this case.
// The case is also written next to the result file so that the driver can re-run it when the worker process dies
// of a fatal runtime error (stack overflow, out of memory) inside the code under test.
func (c *Ctx) Begin(seed int64, cs any) {
	b := mustJSON(cs)
	now := time.Now()
	watch.mu.Lock()
	if !watch.runBegan.IsZero() {
		if d := int(now.Sub(watch.runBegan).Seconds()); d > c.Res.Counters["max:run-wall-s"] {
			c.Res.Counters["max:run-wall-s"] = d
		}
	}
	watch.seed, watch.caseJSON, watch.began, watch.runBegan, watch.heapAtBegin = seed, b, now, now, heapMB()
	watch.mu.Unlock()
	if watch.curPath != "" {
		rf := ReplayFile{Property: c.Property, Harness: c.Harness, Mode: c.Mode, Tier: c.Tier, RunSeed: seed, Case: b, Race: simrt.RaceBuild}
		if jb, err := json.Marshal(rf); err == nil {
			_ = os.WriteFile(watch.curPath, jb, 0644)
		}
	}
	if r := rssMB(); r > c.Res.Counters["max:rss-mb"] {
		c.Res.Counters["max:rss-mb"] = r
	}
	if h := int(heapPeakMB.Load()); h > c.Res.Counters["max:heap-mb"] {
		c.Res.Counters["max:heap-mb"] = h
	}
}

// Beat tells the watchdog that the harness is making progress inside a long enumeration (one damaged copy read, one
// crash image recovered, one faulted execution finished): the no-return limit is about a single call into the code
// under test that does not come back, not about how many evaluations one case needs on a slow or loaded machine.
func Beat() { beats.Add(1) }

// beats is only counted here: Beat is called from inside synctest bubbles, where time.Now is the fake clock; the
// watchdog goroutine (outside every bubble, real time) notes when the counter last moved.
var beats atomic.Int64

var heapPeakMB atomic.Int64

// heapMB: bytes occupied by live and not yet swept heap objects. Unlike the resident set size it does not count
// memory the runtime has freed but not yet returned, simulator scratch files, or the race detector's shadow.
func heapMB() int {
	s := []metrics.Sample{{Name: "/memory/classes/heap/objects:bytes"}}
	metrics.Read(s)
	if s[0].Value.Kind() != metrics.KindUint64 {
		return 0
	}
	return int(s[0].Value.Uint64() >> 20)
}

func watchLimits(tier string) (heapLimit int, hang time.Duration) {
	heapLimit = int(envInt("VERIF_RUNAWAY_MB", 5000))
	hs := int64(600)
	if tier == "thorough" {
		hs = 1200
	}
	return heapLimit, time.Duration(envInt("VERIF_HANG_S", hs)) * time.Second
}

func (c *Ctx) startWatchdog() {
	if out := os.Getenv("VERIF_OUT"); out != "" {
		watch.curPath = out + ".current"
	}
	heapLimit, hang := watchLimits(c.Tier)
	go func() {
		var lastBeats int64
		var lastProgress time.Time
		for {
			time.Sleep(50 * time.Millisecond)
			watch.mu.Lock()
			began, seed, cs, rp, h0 := watch.began, watch.seed, watch.caseJSON, watch.replay, watch.heapAtBegin
			watch.mu.Unlock()
			if began.IsZero() {
				continue
			}
			h := heapMB()
			if int64(h) > heapPeakMB.Load() {
				heapPeakMB.Store(int64(h))
			}
			if h-h0 > heapLimit {
				// garbage that the collector has not got round to yet (a loaded machine, many processors) is not a
				// runaway: only what survives a full collection counts
				runtime.GC()
				h = heapMB()
			}
			if h-h0 > heapLimit {
				c.watchdogFire("runaway-memory", fmt.Sprintf("the heap grew from %d to %d MB of objects during one simulated run (limit: %d MB of growth): a call into the code under test allocates without bound%s", h0, h, heapLimit, libFrames()), seed, cs, rp)
			}
			if b := beats.Load(); b != lastBeats {
				lastBeats, lastProgress = b, time.Now()
			}
			if lastProgress.After(began) {
				began = lastProgress
			}
			if d := time.Since(began); d > hang {
				c.watchdogFire("no-return", fmt.Sprintf("one simulated run has not finished after %v of wall-clock time: a call into the code under test does not return", d.Round(time.Second)), seed, cs, rp)
			}
		}
	}()
}

// watchdogFire never returns. It deliberately does not touch the maps of c.Res (the stuck goroutine may own them).
func (c *Ctx) watchdogFire(class, detail string, seed int64, cs json.RawMessage, rp *ReplayFile) {
	sig := class + "|" + c.Harness + "/" + c.Mode
	if rp != nil {
		fmt.Printf("REPLAY-VIOLATION property=%s sig=%s\n%s\n", rp.Property, sig, detail)
		if sig == rp.Sig {
			fmt.Printf("REPLAY-RESULT reproduced sig=%s\n", rp.Sig)
		} else {
			fmt.Printf("REPLAY-RESULT not-reproduced expected=%s got=1 violations\n", rp.Sig)
		}
		_ = os.RemoveAll(c.Scratch)
		os.Exit(0)
	}
	v := Violation{Property: c.Property, Sig: sig, Detail: detail}
	v.Known = c.matchKnown(v.Property, v.Sig)
	rf := ReplayFile{Property: c.Property, Harness: c.Harness, Mode: c.Mode, Tier: c.Tier, RunSeed: seed, Sig: sig, Detail: detail, Case: cs, Race: simrt.RaceBuild}
	name := fmt.Sprintf("%s-%s-%s-%016x.json", v.Property, c.Harness, c.Mode, hash64(sig, seed))
	p := filepath.Join(c.ReplayDir, name)
	_ = os.MkdirAll(c.ReplayDir, 0755)
	if b, err := json.MarshalIndent(rf, "", " "); err == nil && os.WriteFile(p, b, 0644) == nil {
		v.Replay = p
	}
	res := Result{
		Property: c.Res.Property, Harness: c.Res.Harness, Mode: c.Res.Mode, Tier: c.Res.Tier, Seed: c.Res.Seed, Worker: c.Res.Worker,
		Runs: c.Res.Runs, Evaluations: c.Res.Evaluations, WallS: time.Since(c.startWall).Seconds(),
		Counters:   map[string]int{"watchdog-fired:" + class: 1, "violations": 1},
		Violations: []Violation{v}, Seeds: []int64{seed},
	}
	b, _ := json.Marshal(res)
	if out := os.Getenv("VERIF_OUT"); out != "" {
		_ = os.WriteFile(out, b, 0644)
	} else {
		fmt.Println(string(b))
	}
	_ = os.RemoveAll(c.Scratch)
	os.Exit(0)
}

// libFrames returns the frames of the code under test that are on some goroutine's stack right now (diagnostics for
// the watchdog's reports).
func libFrames() string {
	buf := make([]byte, 1<<20)
	buf = buf[:runtime.Stack(buf, true)]
	var out []string
	for _, l := range strings.Split(string(buf), "\n") {
		if (strings.Contains(l, "go-sstables/") || strings.Contains(l, "bloomfilter")) && !strings.HasPrefix(l, "\t") {
			if i := strings.LastIndex(l, "("); i > 0 {
				l = l[:i]
			}
			out = append(out, l)
			if len(out) >= 8 {
				break
			}
		}
	}
	if len(out) == 0 {
		return ""
	}
	return "; library frames on the stacks: " + strings.Join(out, " <- ")
}

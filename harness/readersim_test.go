package harness

import (
	"sort"
	"bytes"
	"encoding/json"
	"errors"
	"fmt"
	"io"
	"math/rand"
	"os"
	"path/filepath"
	"strings"
	"testing"
	"time"

	"github.com/thomasjungblut/go-sstables/recordio"
	"github.com/thomasjungblut/go-sstables/skiplist"
	"github.com/thomasjungblut/go-sstables/sstables"
	"verifsim/simos"
	"verifsim/simrt"
)

// readersim (C18 reader arms, C19 reader arm):
//   mode "table": 2..6 tasks share one SSTableReader (default loaders) and call Get / Contains / ScanStartingAt /
//     ScanRange, stepping their iterators, interleaved by the seeded scheduler at every call, iterator step and
//     mapping read; every result must equal the sequential answer.
//   mode "mmap":  2..6 tasks share one MMapReader and call ReadNextAt / SeekNext.
//   In a race-detector build (arm suffix "-race" runs the same harness from the -race binary) any DATA RACE report
//   produced during a run is a violation attributed to that run.
//   mode "leaks" (C19): sequences of reader creation, complete and abandoned scans and Close on table and
//     RecordIO readers/writers; afterwards the ledger must be empty.

func init() {
	harnesses["readersim"] = readersimMain
	replayers["readersim"] = readersimReplay
}

type rsOp struct {
	Kind  string `json:"k"` // get | contains | scanfrom | scanrange | readat | seeknext
	A     int    `json:"a"`
	B     int    `json:"b"`
	Steps int    `json:"steps,omitempty"`
}

type rsCase struct {
	Table tblCase  `json:"table"`
	Tasks [][]rsOp `json:"tasks"`
	// open the shared table reader with EnableHashCheckOnReads (per-read checksum verification)
	HashOnRead bool       `json:"hash_on_read,omitempty"`
	Knobs      schedKnobs `json:"knobs"`
}

func rsGen(r *rand.Rand, mode string, thorough bool) rsCase {
	tc := tblGen(r, "control", false)
	tc.Loader = 0
	tc.NKeys = pick(r, 3, 8, 20, 60)
	tc.ReadChunk = 0
	if mode == "mmap" {
		tc.ValShape = 0
	}
	c := rsCase{Table: tc, Knobs: genKnobs(r), HashOnRead: r.Intn(3) == 0}
	nt := 2 + r.Intn(5)
	for t := 0; t < nt; t++ {
		n := 3 + r.Intn(10)
		if thorough {
			n = 5 + r.Intn(30)
		}
		var ops []rsOp
		for i := 0; i < n; i++ {
			a, b := r.Intn(tc.NKeys+2), r.Intn(tc.NKeys+2)
			if mode == "mmap" {
				ops = append(ops, rsOp{Kind: pick(r, "readat", "readat", "seeknext"), A: a, B: r.Intn(64)})
				continue
			}
			switch r.Intn(10) {
			case 0, 1, 2, 3:
				ops = append(ops, rsOp{Kind: "get", A: a})
			case 4, 5, 6:
				ops = append(ops, rsOp{Kind: "contains", A: a})
			case 7, 8:
				ops = append(ops, rsOp{Kind: "scanfrom", A: a, Steps: 1 + r.Intn(6)})
			default:
				if a > b {
					a, b = b, a
				}
				ops = append(ops, rsOp{Kind: "scanrange", A: a, B: b, Steps: 1 + r.Intn(6)})
			}
		}
		c.Tasks = append(c.Tasks, ops)
	}
	return c
}

// probeKey maps an index to a present key (i < len) or an absent one.
func probeKey(pairs []kv, i int) []byte {
	if i < len(pairs) {
		return pairs[i].k
	}
	if i == len(pairs) {
		return []byte{0xff, 0xff, 0xff, 0xff, 0xff, 0xff}
	}
	return []byte{0}
}

type rsV = dbViolation

func runRSCase(c *Ctx, rc rsCase, tape *simrt.Tape) (vs []rsV, evals int) {
	dir := freshDir(c, "rs")
	defer os.RemoveAll(dir)
	add := func(sig, detail string) { vs = append(vs, rsV{sig, detail}) }
	pairs := tblPairs(rc.Table)
	if len(pairs) == 0 {
		return
	}
	if err := tblWrite(dir, rc.Table, pairs); err != nil {
		add("writer-error|"+normErr(err), err.Error())
		return
	}
	w := simrt.NewWorld(dir, tape)
	w.Record = false
	defer simrt.Deactivate()
	defer w.ReleaseAll()
	present := map[string][]byte{}
	for _, p := range pairs {
		present[string(p.k)] = p.v
	}
	// per-task results, written only by their task and read after the run
	type result struct{ bad string }
	results := make([]result, len(rc.Tasks))
	counts := make([]int, len(rc.Tasks))
	var rd sstables.SSTableReaderI
	var mm recordio.ReadAtI
	var offs []int
	var err error
	if c.Mode == "mmap" {
		offs = recordOffsets(dir, pairs)
		mm, err = recordio.NewMemoryMappedReaderWithPath(filepath.Join(dir, sstables.DataFileName))
		if err == nil {
			err = mm.Open()
		}
	} else {
		ropts := []sstables.ReadOption{sstables.ReadBasePath(dir), sstables.ReadWithKeyComparator(skiplist.BytesComparator{})}
		if rc.HashOnRead {
			ropts = append(ropts, sstables.EnableHashCheckOnReads())
			if rc.Table.Seed%2 == 0 {
				ropts = append(ropts, sstables.SkipHashCheckOnLoad())
			}
		}
		rd, err = sstables.NewSSTableReader(ropts...)
	}
	if err != nil {
		add("reader-open-error|"+normErr(err), err.Error())
		return
	}
	if rc.Table.Seed%4 == 1 {
		// an unrelated sequential reader of the same process is opened, used and closed twice before the concurrent
		// phase (the second Close reports "already closed"): whatever it hands back to shared pools must not come
		// back twice
		if sr, e := recordio.NewFileReader(recordio.ReaderPath(filepath.Join(dir, sstables.IndexFileName))); e == nil {
			if sr.Open() == nil {
				_, _ = sr.ReadNext()
				_ = sr.Close()
				_ = sr.Close()
			}
		}
	}
	fileSize := 0
	if fi, e := os.Stat(filepath.Join(dir, sstables.DataFileName)); e == nil {
		fileSize = int(fi.Size())
	}
	body := func(ti int) {
		defer func() {
			if p := recover(); p != nil {
				if _, ok := p.(interface{ Error() string }); ok && strings.Contains(fmt.Sprint(p), "process stopped") {
					panic(p)
				}
				results[ti].bad = fmt.Sprintf("panic|%v", p)
			}
		}()
		for oi, op := range rc.Tasks[ti] {
			simrt.Yield("op")
			counts[ti]++
			fail := func(format string, a ...any) {
				if results[ti].bad == "" {
					results[ti].bad = fmt.Sprintf("wrong-result|%s|task %d op %d: ", op.Kind, ti, oi) + fmt.Sprintf(format, a...)
				}
			}
			switch op.Kind {
			case "get":
				k := probeKey(pairs, op.A)
				v, err := rd.Get(k)
				want, ok := present[string(k)]
				if ok && (err != nil || !valEq(v, want)) {
					fail("Get(%x) = (%s, %v), alone it returns %s", headBytes(k, 8), recDesc(v), err, recDesc(want))
				}
				if !ok && !errors.Is(err, sstables.NotFound) {
					fail("Get(%x) of an absent key = (%s, %v)", headBytes(k, 8), recDesc(v), err)
				}
			case "contains":
				k := probeKey(pairs, op.A)
				has, err := rd.Contains(k)
				_, ok := present[string(k)]
				if err != nil || has != ok {
					fail("Contains(%x) = (%v, %v), alone it returns %v", headBytes(k, 8), has, err, ok)
				}
			case "scanfrom", "scanrange":
				lo := probeKey(pairs, op.A)
				hi := probeKey(pairs, op.B)
				var it sstables.SSTableIteratorI
				var err error
				var want []kv
				if op.Kind == "scanfrom" {
					it, err = rd.ScanStartingAt(lo)
					want = expectRange(pairs, lo, nil, true, false)
				} else {
					if bytes.Compare(lo, hi) > 0 {
						lo, hi = hi, lo
					}
					it, err = rd.ScanRange(lo, hi)
					want = expectRange(pairs, lo, hi, true, true)
				}
				if err != nil {
					fail("%s: %v", op.Kind, err)
					continue
				}
				for s := 0; s < op.Steps; s++ {
					simrt.Yield("iter")
					k, v, err := it.Next()
					if s >= len(want) {
						if !errors.Is(err, sstables.Done) {
							fail("%s step %d = (%x, %s, %v), alone the iterator is exhausted", op.Kind, s, headBytes(k, 8), recDesc(v), err)
						}
						break
					}
					if err != nil || !bytes.Equal(k, want[s].k) || !valEq(v, want[s].v) {
						fail("%s step %d = (%x, %s, %v), alone it returns (%x, %s)", op.Kind, s, headBytes(k, 8), recDesc(v), err, headBytes(want[s].k, 8), recDesc(want[s].v))
						break
					}
				}
			case "readat":
				i := op.A % len(offs)
				got, err := mm.ReadNextAt(uint64(offs[i]))
				if err != nil || !valEq(got, pairs[i].v) {
					fail("ReadNextAt(%d) = (%s, %v), alone it returns %s", offs[i], recDesc(got), err, recDesc(pairs[i].v))
				}
			case "seeknext":
				i := op.A % len(offs)
				start := offs[i] - op.B%8
				if start < 0 {
					start = 0
				}
				// the first record starting at or after start
				j := 0
				for j < len(offs) && offs[j] < start {
					j++
				}
				o, got, err := mm.SeekNext(uint64(start))
				if j >= len(offs) {
					if !errors.Is(err, io.EOF) {
						fail("SeekNext(%d) = (%d, %s, %v), alone it returns EOF", start, o, recDesc(got), err)
					}
				} else if err != nil || int(o) != offs[j] || !valEq(got, pairs[j].v) {
					fail("SeekNext(%d) = (%d, %s, %v), alone it returns (%d, %s)", start, o, recDesc(got), err, offs[j], recDesc(pairs[j].v))
				}
			}
		}
	}
	var serr error
	var stopped []string
	func() {
		defer func() {
			if p := recover(); p != nil {
				msg := fmt.Sprint(p)
				if strings.Contains(msg, "deadlock") || strings.Contains(msg, "blocked goroutines") {
					return
				}
				panic(p)
			}
		}()
		runBubble(c.T, func(t *testing.T) {
			w.EnableScheduler(simrt.SchedConfig{Weights: [4]int{1, 1, 1, 1}, MaxSteps: 2000000})
			fin := make(chan struct{}, len(rc.Tasks))
			for ti := range rc.Tasks {
				ti := ti
				w.GoClient(fmt.Sprintf("client%d", ti), func() {
					defer func() { fin <- struct{}{} }()
					body(ti)
				})
			}
			_, serr = w.RunScheduler()
			stopped = w.StoppedMessages()
			if serr != nil || len(stopped) > 0 {
				w.KillTasks()
				return
			}
			for range rc.Tasks {
				<-fin // orders the tasks' result slots before the reads below
			}
		})
	}()
	_ = fileSize
	if serr != nil {
		add("liveness|"+serr.Error(), serr.Error())
		return
	}
	if len(stopped) > 0 {
		add("panic|"+normErr(errors.New(firstLine(stopped[0]))), stopped[0])
		return
	}
	for ti := range results {
		evals += counts[ti]
		if b := results[ti].bad; b != "" {
			parts := strings.SplitN(b, "|", 3)
			sig := parts[0]
			if len(parts) > 2 {
				sig += "|" + parts[1]
			}
			add(sig, b)
		}
	}
	if rd != nil {
		_ = rd.Close()
	}
	if mm != nil {
		_ = mm.Close()
	}
	return
}

// ---- C19 reader arm ----

func runLeakCase(c *Ctx, tc tblCase, seed int64) (vs []rsV, evals int) {
	dir := freshDir(c, "lk")
	defer os.RemoveAll(dir)
	add := func(sig, detail string) { vs = append(vs, rsV{sig, detail}) }
	pairs := tblPairs(tc)
	if len(pairs) == 0 {
		return
	}
	w := simrt.NewWorld(dir, simrt.NewTape(seed))
	w.Record = false
	defer simrt.Deactivate()
	defer w.ReleaseAll()
	if err := tblWrite(dir, tc, pairs); err != nil {
		add("writer-error|"+normErr(err), err.Error())
		return
	}
	if h, m := w.OpenHandles(), w.OpenMappings(); len(h)+len(m) > 0 {
		add("leak|table-writer-after-close", fmt.Sprintf("the table writer was closed but still open: %v %v", h, m))
		return
	}
	r := rand.New(rand.NewSource(seed))
	rd, err := sstables.NewSSTableReader(sstables.ReadBasePath(dir), sstables.ReadWithKeyComparator(skiplist.BytesComparator{}), tblLoader(tc))
	if err != nil {
		add("reader-open-error|"+normErr(err), err.Error())
		return
	}
	n := 1 + r.Intn(6)
	for i := 0; i < n; i++ {
		evals++
		Beat()
		var it sstables.SSTableIteratorI
		switch r.Intn(3) {
		case 0:
			it, err = rd.Scan()
		case 1:
			it, err = rd.ScanStartingAt(pairs[r.Intn(len(pairs))].k)
		default:
			it, err = rd.ScanRange(pairs[0].k, pairs[len(pairs)-1].k)
		}
		if err != nil {
			add("scan-error|"+normErr(err), err.Error())
			return
		}
		steps := r.Intn(len(pairs) + 2) // complete or abandoned
		for s := 0; s < steps; s++ {
			if _, _, err := it.Next(); err != nil {
				break
			}
		}
	}
	if err := rd.Close(); err != nil {
		add("close-error|"+normErr(err), err.Error())
		return
	}
	if h, m := w.OpenHandles(), w.OpenMappings(); len(h)+len(m) > 0 {
		add("leak|table-reader-after-close|"+loaderNames[tc.Loader], fmt.Sprintf("the table reader (%s loader) was closed after %d scans but still open: handles %v mappings %v", loaderNames[tc.Loader], n, h, m))
		return
	}
	// a table of the legacy format (no metadata file, records without checksums: the repository's own fixtures), scanned
	// completely and partly, then closed
	if src := legacyFixture(int(seed)); src != "" && seed%3 == 0 {
		leg := filepath.Join(dir, "legacy")
		if err := os.CopyFS(leg, os.DirFS(src)); err != nil {
			panic(err)
		}
		evals++
		Beat()
		lrd, err := sstables.NewSSTableReader(sstables.ReadBasePath(leg), sstables.ReadWithKeyComparator(skiplist.BytesComparator{}), tblLoader(tc))
		if err != nil {
			add("legacy-reader-open-error|"+normErr(err), err.Error())
			return
		}
		for i := 0; i < 3; i++ {
			it, err := lrd.Scan()
			if err != nil {
				add("legacy-scan-error|"+normErr(err), err.Error())
				return
			}
			for s := r.Intn(9); s > 0; s-- {
				if _, _, err := it.Next(); err != nil {
					break
				}
			}
		}
		if err := lrd.Close(); err != nil {
			add("close-error|legacy|"+normErr(err), err.Error())
			return
		}
		if h, m := w.OpenHandles(), w.OpenMappings(); len(h)+len(m) > 0 {
			add("leak|legacy-table-reader-after-close|"+loaderNames[tc.Loader], fmt.Sprintf("the reader of a legacy-format table (%s loader) was closed after 3 scans but still open: handles %v mappings %v", loaderNames[tc.Loader], h, m))
			return
		}
	}
	// recordio reader abandoned mid-file, mmap reader, then Close
	p := filepath.Join(dir, sstables.DataFileName)
	fr, err := recordio.NewFileReaderWithPath(p)
	if err == nil {
		err = fr.Open()
	}
	if err == nil {
		_, _ = fr.ReadNext()
		err = fr.Close()
	}
	mr, err2 := recordio.NewMemoryMappedReaderWithPath(p)
	if err2 == nil {
		err2 = mr.Open()
	}
	if err2 == nil {
		_, _, _ = mr.SeekNext(0)
		err2 = mr.Close()
	}
	// the constructors that take over an open file handle (they close it and re-open by path), reader and writer
	var err3, err4 error
	if f, e := simos.Open(p); e != nil {
		err3 = e
	} else if r3, e := recordio.NewFileReaderWithFile(f); e != nil {
		err3 = e
	} else if err3 = r3.Open(); err3 == nil {
		_, _ = r3.ReadNext()
		err3 = r3.Close()
	}
	if f, e := simos.Create(filepath.Join(dir, "handle.rio")); e != nil {
		err4 = e
	} else if w4, e := recordio.NewFileWriter(recordio.File(f)); e != nil {
		err4 = e
	} else if err4 = w4.Open(); err4 == nil {
		_, err4 = w4.Write([]byte("record"))
		err4 = errors.Join(err4, w4.Close())
	}
	// a writer that is closed after a seek back to an earlier record boundary (Close then cuts the stale tail off): with
	// nothing, with a shorter and with a longer record written after the rewind
	for variant := 0; variant < 3 && err4 == nil; variant++ {
		w5, e := recordio.NewFileWriter(recordio.Path(filepath.Join(dir, fmt.Sprintf("seekback%d.rio", variant))), recordio.CompressionType(tc.DataComp))
		if e != nil {
			err4 = e
			break
		}
		if err4 = w5.Open(); err4 != nil {
			break
		}
		_, e1 := w5.Write([]byte("first record"))
		off, e2 := w5.Write([]byte("second record, to be taken back"))
		_, e3 := w5.Write(nil)
		e4 := w5.Seek(off)
		var e5 error
		switch variant {
		case 1:
			_, e5 = w5.Write([]byte("short"))
		case 2:
			_, e5 = w5.Write(make([]byte, 200))
		}
		err4 = errors.Join(e1, e2, e3, e4, e5, w5.Close())
	}
	evals++
	Beat()
	if err != nil || err2 != nil || err3 != nil || err4 != nil {
		add("recordio-reader-error|"+normErr(errors.Join(err, err2, err3, err4)), fmt.Sprint(err, err2, err3, err4))
		return
	}
	if h, m := w.OpenHandles(), w.OpenMappings(); len(h)+len(m) > 0 {
		add("leak|recordio-reader-after-close", fmt.Sprintf("RecordIO readers were closed but still open: %v %v", h, m))
		return
	}
	// failed opens: a constructor that returns an error hands out nothing that could be closed, so whatever it opened
	// on the way must be released by itself; a reader whose Open failed is closed by the caller (Close may complain).
	// Damaged copies of the table (cut, overwritten or missing files) make the loaders fail at different steps.
	files := []string{sstables.IndexFileName, sstables.DataFileName, sstables.MetaFileName, sstables.BloomFileName}
	for round := 0; round < 6; round++ {
		evals++
		Beat()
		dmg := filepath.Join(dir, fmt.Sprintf("dmg%d", round))
		if err := os.MkdirAll(dmg, 0o700); err != nil {
			panic(err)
		}
		for _, f := range files {
			b, err := os.ReadFile(filepath.Join(dir, f))
			if err != nil {
				continue
			}
			if err := os.WriteFile(filepath.Join(dmg, f), b, 0o600); err != nil {
				panic(err)
			}
		}
		victim := files[r.Intn(len(files))]
		vp := filepath.Join(dmg, victim)
		b, err := os.ReadFile(vp)
		if err != nil {
			continue
		}
		what := ""
		k := r.Intn(6)
		if victim == sstables.MetaFileName {
			// the metadata file is only removed or cut: its record count sizes the index structures of some loaders, and
			// an inverted or overwritten count of 2^60 records is a question of memory (which C19 does not speak about),
			// not of descriptors - the watchdog would report the allocation as a violation of this property
			k %= 3
			if k == 2 && len(b) <= 1 {
				k = 1
			}
		}
		switch {
		case k == 0:
			_ = os.Remove(vp)
			what = "removed"
		case k == 1:
			b = b[:0]
			what = "cut to 0 bytes"
		case k == 2 && len(b) > 1:
			n := 1 + r.Intn(len(b)-1)
			b = b[:n]
			what = fmt.Sprintf("cut to %d of %d bytes", n, len(b))
		case k == 3 && len(b) > 0:
			b[r.Intn(min(len(b), 8))] ^= 0xff
			what = "file header byte inverted"
		default:
			if len(b) > 0 {
				at := r.Intn(len(b))
				for i := at; i < len(b) && i < at+1+r.Intn(64); i++ {
					b[i] = 0xff
				}
				what = fmt.Sprintf("bytes from %d overwritten with 0xff", at)
			}
		}
		if what != "removed" {
			if err := os.WriteFile(vp, b, 0o600); err != nil {
				panic(err)
			}
		}
		var opts []sstables.ReadOption
		opts = append(opts, sstables.ReadBasePath(dmg), sstables.ReadWithKeyComparator(skiplist.BytesComparator{}), tblLoader(tc))
		if r.Intn(3) == 0 {
			opts = append(opts, sstables.SkipHashCheckOnLoad())
		}
		var drd sstables.SSTableReaderI
		var oerr error
		func() {
			defer func() {
				if p := recover(); p != nil {
					oerr = fmt.Errorf("panic: %v", p)
					c.Count("probe:panic-on-damaged-table-open", 1)
				}
			}()
			drd, oerr = sstables.NewSSTableReader(opts...)
		}()
		if oerr == nil && drd != nil {
			c.Count("probe:damaged-table-opened", 1)
			_ = drd.Close()
		} else {
			c.Count("probe:damaged-table-open-failed", 1)
		}
		if h, m := w.OpenHandles(), w.OpenMappings(); len(h)+len(m) > 0 {
			state := "failed"
			if oerr == nil {
				state = "succeeded and was closed"
			}
			add("leak|table-open-on-damaged-files|"+victim+"|"+loaderNames[tc.Loader], fmt.Sprintf("%s %s; opening the table (%s loader) %s (%v) and left open: handles %v mappings %v", victim, what, loaderNames[tc.Loader], state, oerr, h, m))
			return
		}
		if victim == sstables.DataFileName || victim == sstables.IndexFileName {
			// the RecordIO readers on the same damaged file: Open may fail, Close must release the descriptor / mapping
			if fr, e := recordio.NewFileReaderWithPath(vp); e == nil {
				_ = fr.Open()
				_, _ = fr.ReadNext()
				_ = fr.Close()
			}
			if mr, e := recordio.NewMemoryMappedReaderWithPath(vp); e == nil {
				_ = mr.Open()
				_ = mr.Close()
			}
			if h, m := w.OpenHandles(), w.OpenMappings(); len(h)+len(m) > 0 {
				add("leak|recordio-open-on-damaged-file", fmt.Sprintf("%s %s; RecordIO readers were opened (possibly failing) and closed but left open: handles %v mappings %v", victim, what, h, m))
				return
			}
		}
	}
	return
}

func readersimMain(c *Ctx) {
	for i := 0; c.TimeLeft(); i++ {
		seed := c.RunSeed(i)
		r := rand.New(rand.NewSource(seed))
		c.Res.Runs++
		if len(c.Res.Seeds) < 8 {
			c.Res.Seeds = append(c.Res.Seeds, seed)
		}
		if c.Mode == "leaks" {
			tc := tblGen(r, "control", false)
			if tc.NKeys == 0 {
				tc.NKeys = 3
			}
			c.Begin(seed, rsCase{Table: tc})
			vs, evals := runLeakCase(c, tc, seed)
			c.Res.Evaluations += evals
			c.Distinct(hash64("leak", mustJSON(tc)))
			c.Sample(map[string]any{"run_seed": seed, "table": tc})
			for _, v := range vs {
				c.Report(Violation{Sig: v.sig, Detail: v.detail}, &ReplayFile{RunSeed: seed, Case: mustJSON(rsCase{Table: tc})})
			}
			continue
		}
		rc := rsGen(r, c.Mode, c.Thorough())
		tape := simrt.NewTape(seed)
		tape.NoRec = simrt.RaceBuild
		c.Begin(seed, rc)
		vs, evals := runRSCase(c, rc, tape)
		c.Res.Evaluations += evals
		c.Distinct(hash64("rs", mustJSON(rc)))
		c.Count("probe:tasks-sharing-one-reader", len(rc.Tasks))
		c.Sample(map[string]any{"run_seed": seed, "case": rc})
		if simrt.RaceBuild {
			sigs, details := raceSigs(raceDelta())
			c.Count("race-reports", len(sigs))
			for k := range sigs {
				vs = append(vs, rsV{sigs[k], details[k]})
			}
		}
		for _, v := range vs {
			c.Report(Violation{Sig: v.sig, Detail: v.detail}, &ReplayFile{RunSeed: seed, Case: mustJSON(rc)})
		}
	}
}

func readersimReplay(c *Ctx, rf *ReplayFile) []Violation {
	var rc rsCase
	if err := json.Unmarshal(rf.Case, &rc); err != nil {
		panic(err)
	}
	c.Mode = rf.Mode
	var vs []rsV
	if rf.Mode == "leaks" {
		vs, _ = runLeakCase(c, rc.Table, rf.RunSeed)
	} else {
		tape := simrt.NewTape(rf.RunSeed)
		tape.NoRec = simrt.RaceBuild
		vs, _ = runRSCase(c, rc, tape)
		if simrt.RaceBuild {
			sigs, details := raceSigs(raceDelta())
			for k := range sigs {
				vs = append(vs, rsV{sigs[k], details[k]})
			}
		}
	}
	var out []Violation
	for _, v := range vs {
		out = append(out, Violation{Property: rf.Property, Sig: v.sig, Detail: v.detail})
	}
	return out
}

var _ = time.Now

// legacyFixture returns one of the legacy-format table folders that the tree under test ships as test data ("" if it
// has none).
func legacyFixture(n int) string {
	root := os.Getenv("VERIF_REPO")
	if root == "" {
		root = "/repo"
	}
	ds, _ := filepath.Glob(filepath.Join(root, "sstables", "test_files", "v0_compat", "*"))
	if len(ds) == 0 {
		return ""
	}
	sort.Strings(ds)
	if n < 0 {
		n = -n
	}
	return ds[n%len(ds)]
}

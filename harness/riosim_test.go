package harness

import (
	"bytes"
	"encoding/binary"
	"encoding/json"
	"errors"
	"fmt"
	"hash/crc32"
	"io"
	"math/rand"
	"os"
	"path/filepath"
	"time"

	"github.com/thomasjungblut/go-sstables/recordio"
	"verifsim/simos"
	"verifsim/simrt"
)

// riosim: RecordIO files on the simulated disk.
//   mode "control" (C04): writer programs (Write / WriteSync / seek back to a record boundary) and reader programs
//     (ReadNext / SkipNext mixes, ReadNextAt at every returned offset, SeekNext from every byte offset) with the
//     disk delivering reads in tape-chosen chunks; oracle = list of surviving records with their offsets.
//   mode "damage" (C12): every truncation length, every record-header byte x replacement values, out-of-range
//     file-header fields; oracle = only genuine records, in order; a damaged header must produce an error.

func init() {
	harnesses["riosim"] = riosimMain
	replayers["riosim"] = riosimReplay
}

type rioRec struct {
	Nil     bool `json:"nil,omitempty"`
	Size    int  `json:"size"`
	Pattern int  `json:"pat"`
	Sync    bool `json:"sync,omitempty"`
	// after writing this record, seek back to the boundary of record SeekBack (index into the records written so far; -1 = none)
	SeekBack int `json:"seek_back"`
}

type rioCase struct {
	Compression int      `json:"compression"`
	WriteBuf    int      `json:"write_buf"`
	ReadBuf     int      `json:"read_buf"`
	DirectIO    bool     `json:"direct_io,omitempty"`
	ReadChunk   int      `json:"read_chunk"` // 0 = none, else max chunk the disk returns per read
	Records     []rioRec `json:"records"`
	SkipMask    uint64   `json:"skip_mask"`             // reader program: bit i set = SkipNext for record i
	DirectRead  bool     `json:"direct_read,omitempty"` // sequential reader through the direct-I/O factory (stub: flag dropped)
	ViaFile     bool     `json:"via_file,omitempty"`    // writer and sequential reader are given an open file handle instead of a path
}

func rioPayload(i int, r rioRec) []byte {
	if r.Nil {
		return nil
	}
	b := make([]byte, r.Size)
	rr := rand.New(rand.NewSource(int64(i)*104729 + int64(r.Size)*31 + int64(r.Pattern)))
	switch r.Pattern {
	case 0: // random
		rr.Read(b)
	case 1: // marker laden
		m := recordio.MagicNumberSeparatorLongBytes
		for j := range b {
			b[j] = m[j%3]
		}
	case 2: // random with a trailing first marker byte
		rr.Read(b)
		if len(b) > 0 {
			b[len(b)-1] = 0x91
		}
	case 3: // trailing two marker bytes
		rr.Read(b)
		if len(b) > 1 {
			b[len(b)-2], b[len(b)-1] = 0x91, 0x8d
		}
	case 4: // zeros (compressible; looks like a block-aligned tail)
	case 5: // ascii
		for j := range b {
			b[j] = byte('a' + (i+j)%26)
		}
	case 6: // starts with a zero byte and small bytes (varint friendly)
		rr.Read(b)
		for j := range b {
			b[j] &= 0x0f
		}
		if len(b) > 0 {
			b[0] = 0
		}
	case 7: // false record starts: the marker followed by header fields that cannot be decoded or are absurd
		rr.Read(b)
		junk := [][]byte{
			{0x91, 0x8d, 0x4c, 0x00, 0xff, 0xff, 0xff, 0xff, 0xff, 0xff, 0xff, 0xff, 0xff, 0xff, 0xff, 0xff}, // varint beyond 64 bits
			{0x91, 0x8d, 0x4c, 0x01, 0xff, 0xff, 0xff, 0xff, 0x0f, 0xff, 0xff, 0xff, 0xff, 0x0f},             // sizes of 4 GiB
			{0x91, 0x8d, 0x4c, 0x00, 0xff, 0xff, 0xff, 0xff, 0xff, 0xff, 0xff, 0xff, 0xff, 0x01, 0x00, 0x00}, // size 2^64-1
			{0x91, 0x8d, 0x4c, 0x00, 0x03, 0x03, 0x00},                                                       // plausible tiny header, checksum 0
			{0x91, 0x8d, 0x4c, 0x02, 0x80, 0x80, 0x80},                                                       // nil flag 2, unterminated varint
		}
		for at := 0; at < len(b); {
			j := junk[rr.Intn(len(junk))]
			at += rr.Intn(8)
			if at+len(j) > len(b) {
				break
			}
			copy(b[at:], j)
			at += len(j)
			if rr.Intn(3) == 0 {
				break
			}
		}
	case 8:
		// crafted against the header check (uncompressed files, sizes 16 and 20 only): the payload starts with the
		// checksum that the header would have if one altered byte re-framed its varint fields - the third marker byte
		// with its continuation bit set (91 8d cc swallows the nil flag), or the length byte 0x14 turned into 0x8a (a
		// longer than necessary encoding of 10 together with the 0x00 that follows). Random payloads meet such a prefix
		// with probability 2^-32; a file format that protects its headers must not depend on that.
		l := byte(len(b))
		crc := func(parts ...[]byte) []byte {
			var all []byte
			for _, p := range parts {
				all = append(all, p...)
			}
			v := uint64(crc32.Checksum(all, crc32.MakeTable(crc32.Castagnoli)))
			out := make([]byte, binary.MaxVarintLen64)
			return out[:binary.PutUvarint(out, v)]
		}
		k := crc([]byte{0x91, 0x8d, 0x4c, 0x00, l, 0x00})
		var pre []byte
		if l == 16 {
			pre = crc([]byte{0x91, 0x8d, 0xcc, 0x00, l, 0x00}, k)
		} else {
			pre = crc([]byte{0x91, 0x8d, 0x4c, 0x00, 0x8a, 0x00}, k)
		}
		for j := range b {
			b[j] = 'x'
		}
		copy(b, pre)
	}
	return b
}

func rioGen(r *rand.Rand, mode string, thorough bool) rioCase {
	c := rioCase{
		Compression: pick(r, recordio.CompressionTypeNone, recordio.CompressionTypeNone, recordio.CompressionTypeSnappy, recordio.CompressionTypeGZIP, recordio.CompressionTypeLzw),
		WriteBuf:    pick(r, 64, 100, 128, 512, 4096, 8192, 1<<20, 4<<20),
		ReadBuf:     pick(r, 64, 100, 128, 512, 4096, 8192, 1<<20),
		ReadChunk:   pick(r, 0, 0, 1, 3, 7, 64, 1000),
		SkipMask:    r.Uint64(),
	}
	if r.Intn(3) == 0 {
		c.SkipMask = 0
	}
	if mode == "control" && r.Intn(6) == 0 {
		c.DirectIO = true
		c.WriteBuf = pick(r, 4096, 8192)
	}
	if mode == "control" && r.Intn(8) == 0 {
		c.DirectRead = true
		c.ReadBuf = pick(r, 4096, 8192)
	}
	if mode == "control" && !c.DirectRead && r.Intn(8) == 0 {
		c.ViaFile = true
	}
	n := 1 + r.Intn(10)
	if thorough {
		n = 1 + r.Intn(25)
	}
	if mode == "damage" {
		n = 1 + r.Intn(6)
	}
	bigAt := -1
	if mode == "damage" && r.Intn(12) == 0 {
		bigAt = r.Intn(n)
		if c.ReadChunk > 0 && c.ReadChunk < 1000 {
			c.ReadChunk = 4096
		}
	}
	if r.Intn(12) == 0 {
		n = 0
	}
	for i := 0; i < n; i++ {
		rec := rioRec{SeekBack: -1, Pattern: r.Intn(8)}
		rec.Size = pick(r, 0, 1, 2, 3, 5, 17, 60, 63, 64, 65, 127, 128, 129, 200, 255, 256, 1000)
		if mode == "control" && r.Intn(20) == 0 {
			rec.Size = pick(r, 16383, 16384, 16385, 65535, 65536, 65537) // varint / 16-bit boundaries
		}
		if mode == "control" && r.Intn(6) == 0 {
			rec.Size = pick(r, 4090, 4096, 4100, 5000, 8191, 8192, 8193, 70000) // around the 4 KiB scan window and buffers
		}
		if mode == "control" && r.Intn(25) == 0 {
			rec.Size = pick(r, 1<<19-1, 1<<19, 1<<19+1, 600000, 1<<20+3) // around the largest pooled buffer size
			if c.ReadChunk > 0 && c.ReadChunk < 1000 {
				c.ReadChunk = 4096 // byte-sized chunks over a megabyte would only burn time
			}
			rec.Pattern = pick(r, 0, 4, 5) // a megabyte of marker bytes makes every SeekNext do 350k trial reads
		}
		if mode == "control" && r.Intn(8) == 0 {
			rec.Size = c.WriteBuf%100000 + r.Intn(3) - 1
			if rec.Size < 0 {
				rec.Size = 0
			}
		}
		if i == bigAt {
			rec.Size = pick(r, 1<<19+1, 600000)
			rec.Pattern = pick(r, 0, 4, 5)
		}
		if mode == "damage" && c.Compression == recordio.CompressionTypeNone && r.Intn(5) == 0 && i != bigAt {
			rec.Size = pick(r, 16, 20)
			rec.Pattern = 8
		}
		if r.Intn(7) == 0 && i != bigAt && rec.Pattern != 8 {
			rec.Nil = true
		}
		rec.Sync = !c.DirectIO && r.Intn(4) == 0
		// no seek-back with the block aligned (direct I/O) writer: a rewind leaves the file offset unaligned and the
		// next block flush fails loudly with EINVAL under real O_DIRECT (and under the simulated alignment rule).
		// The README calls direct I/O experimental; a writer that reports an error is not judged by C04.
		if mode == "control" && !c.DirectIO && i > 0 && r.Intn(7) == 0 {
			rec.SeekBack = r.Intn(i + 1)
		}
		c.Records = append(c.Records, rec)
	}
	return c
}

type rioWritten struct {
	payload []byte
	nilRec  bool
	off     uint64
}

// rioWrite executes the writer program; returns the surviving records with offsets and the final writer size.
func rioWrite(path string, c rioCase) ([]rioWritten, uint64, error) {
	opts := []recordio.FileWriterOption{recordio.Path(path), recordio.CompressionType(c.Compression), recordio.BufferSizeBytes(c.WriteBuf)}
	if c.ViaFile {
		f, err := simos.Create(path)
		if err != nil {
			return nil, 0, fmt.Errorf("create: %w", err)
		}
		opts[0] = recordio.File(f)
	}
	if c.DirectIO {
		opts = append(opts, recordio.DirectIO())
	}
	w, err := recordio.NewFileWriter(opts...)
	if err != nil {
		return nil, 0, fmt.Errorf("NewFileWriter: %w", err)
	}
	if err := w.Open(); err != nil {
		return nil, 0, fmt.Errorf("Open: %w", err)
	}
	var live []rioWritten
	for i, r := range c.Records {
		p := rioPayload(i, r)
		sizeBefore := w.Size()
		var off uint64
		if r.Sync {
			off, err = w.WriteSync(p)
		} else {
			off, err = w.Write(p)
		}
		if err != nil {
			return nil, 0, fmt.Errorf("Write #%d: %w", i, err)
		}
		if off != sizeBefore {
			return nil, 0, fmt.Errorf("OFFSET-MISMATCH Write #%d returned offset %d but Size() before the write was %d", i, off, sizeBefore)
		}
		live = append(live, rioWritten{payload: p, nilRec: r.Nil, off: off})
		if r.SeekBack >= 0 && r.SeekBack < len(live) {
			target := live[r.SeekBack].off
			if err := w.Seek(target); err != nil {
				return nil, 0, fmt.Errorf("Seek(%d): %w", target, err)
			}
			live = live[:r.SeekBack]
		}
	}
	size := w.Size()
	if err := w.Close(); err != nil {
		return nil, 0, fmt.Errorf("Close: %w", err)
	}
	return live, size, nil
}

func sameRec(got []byte, want rioWritten) bool {
	if want.nilRec {
		return got == nil
	}
	return got != nil && bytes.Equal(got, want.payload)
}

func recDesc(b []byte) string {
	if b == nil {
		return "nil"
	}
	return fmt.Sprintf("%d bytes %x", len(b), headBytes(b, 8))
}

func headBytes(b []byte, n int) []byte {
	if len(b) > n {
		return b[:n]
	}
	return b
}

type rioV = dbViolation

// ---------------- control arm (C04) ----------------

func rioControl(c *Ctx, rc rioCase, tape *simrt.Tape, count bool) (vs []rioV, evals int) {
	dir := freshDir(c, "rio")
	defer os.RemoveAll(dir)
	w := simrt.NewWorld(dir, tape)
	defer simrt.Deactivate()
	defer w.ReleaseAll()
	add := func(sig, detail string) { vs = append(vs, rioV{sig, detail}) }
	path := filepath.Join(dir, "f.rio")
	live, size, err := rioWrite(path, rc)
	if err != nil {
		add("writer-error|"+normErr(err), err.Error())
		return
	}
	fi, _ := os.Stat(path)
	if !rc.DirectIO && uint64(fi.Size()) != size {
		add("size-mismatch|writer-size-vs-file", fmt.Sprintf("writer Size() = %d but the closed file has %d bytes", size, fi.Size()))
	}
	// sequential reader, plain
	w.ReadChunkMax = rc.ReadChunk
	readerOpts := func() []recordio.FileReaderOption {
		o := []recordio.FileReaderOption{recordio.ReaderPath(path), recordio.ReaderBufferSizeBytes(rc.ReadBuf)}
		if rc.DirectRead {
			o = append(o, recordio.ReaderIoFactory(recordio.DirectIOFactory{}))
		}
		return o
	}
	var rd recordio.ReaderI
	if rc.ViaFile {
		// the handle constructor has no buffer-size parameter
		var f *simos.File
		if f, err = simos.Open(path); err == nil {
			rd, err = recordio.NewFileReaderWithFile(f)
		}
	} else {
		rd, err = recordio.NewFileReader(readerOpts()...)
	}
	if err == nil {
		err = rd.Open()
	}
	if err != nil {
		add("reader-open-error|"+normErr(err), err.Error())
		return
	}
	for i, want := range live {
		got, err := rd.ReadNext()
		evals++
		Beat()
		if err != nil {
			add("seq-read|error:"+normErr(err), fmt.Sprintf("ReadNext #%d failed: %v (want %s)", i, err, recDesc(want.payload)))
			_ = rd.Close()
			return
		}
		if !sameRec(got, want) {
			add("seq-read|wrong-record", fmt.Sprintf("ReadNext #%d = %s, written %s", i, recDesc(got), recDesc(want.payload)))
			_ = rd.Close()
			return
		}
	}
	if got, err := rd.ReadNext(); !errors.Is(err, io.EOF) {
		add("seq-read|no-eof", fmt.Sprintf("after the last record ReadNext = (%s, %v), want EOF", recDesc(got), err))
	}
	_ = rd.Close()
	// mixed ReadNext / SkipNext program
	if rc.SkipMask != 0 && len(live) > 0 {
		rd, err := recordio.NewFileReader(readerOpts()...)
		if err == nil {
			err = rd.Open()
		}
		if err != nil {
			add("reader-open-error|"+normErr(err), err.Error())
			return
		}
		for i, want := range live {
			evals++
			Beat()
			if rc.SkipMask&(1<<(uint(i)%64)) != 0 {
				if err := rd.SkipNext(); err != nil {
					add("skip|error:"+normErr(err), fmt.Sprintf("SkipNext over record #%d (%s) failed: %v", i, recDesc(want.payload), err))
					_ = rd.Close()
					return
				}
				continue
			}
			got, err := rd.ReadNext()
			if err != nil || !sameRec(got, want) {
				add("skip|read-after-skip-wrong", fmt.Sprintf("in a ReadNext/SkipNext mix (mask %x) ReadNext #%d = (%s, %v), written %s", rc.SkipMask, i, recDesc(got), err, recDesc(want.payload)))
				_ = rd.Close()
				return
			}
		}
		if rc.SkipMask&(1<<(uint(len(live))%64)) != 0 {
			if err := rd.SkipNext(); !errors.Is(err, io.EOF) {
				add("skip|no-eof", fmt.Sprintf("SkipNext after the last record = %v, want EOF", err))
			}
		} else if _, err := rd.ReadNext(); !errors.Is(err, io.EOF) {
			add("skip|no-eof", fmt.Sprintf("ReadNext after the last record (after skips) = %v, want EOF", err))
		}
		_ = rd.Close()
	}
	w.ReadChunkMax = 0
	// random access
	mm, err := recordio.NewMemoryMappedReaderWithPath(path)
	if err == nil {
		err = mm.Open()
	}
	if err != nil {
		add("mmap-open-error|"+normErr(err), err.Error())
		return
	}
	defer mm.Close()
	for i, want := range live {
		got, err := mm.ReadNextAt(want.off)
		evals++
		Beat()
		if err != nil || !sameRec(got, want) {
			add("read-at|wrong", fmt.Sprintf("ReadNextAt(%d) for record #%d = (%s, %v), written %s", want.off, i, recDesc(got), err, recDesc(want.payload)))
			return
		}
	}
	fileSize := uint64(fi.Size())
	step := uint64(1)
	if !c.Thorough() && fileSize > 3000 {
		step = fileSize / 1500
	} else if fileSize > 40000 {
		step = fileSize / 20000
	}
	if fileSize > 200000 {
		step = fileSize / 200
	}
	next := 0
	for off := uint64(0); off <= fileSize; off++ {
		for next < len(live) && live[next].off < off {
			next++
		}
		if step > 1 && off%step != 0 {
			// always test the offsets around record starts
			near := false
			for d := -2; d <= 2; d++ {
				if next < len(live) && int64(live[next].off)+int64(d) == int64(off) {
					near = true
				}
				if next > 0 && int64(live[next-1].off)+int64(d) == int64(off) {
					near = true
				}
			}
			if !near {
				continue
			}
		}
		gotOff, got, err := mm.SeekNext(off)
		evals++
		Beat()
		if next >= len(live) {
			if !errors.Is(err, io.EOF) {
				add("seek-next|no-eof", fmt.Sprintf("SeekNext(%d) past the last record start = (%d, %s, %v), want EOF", off, gotOff, recDesc(got), err))
				return
			}
			continue
		}
		want := live[next]
		if err != nil || gotOff != want.off || !sameRec(got, want) {
			add("seek-next|wrong", fmt.Sprintf("SeekNext(%d) = (offset %d, %s, %v), the first record starting at or after it is #%d at offset %d (%s)", off, gotOff, recDesc(got), err, next, want.off, recDesc(want.payload)))
			return
		}
	}
	if err := mm.Close(); err != nil {
		add("close-error|"+normErr(err), err.Error())
	}
	simrt.Deactivate()
	if h, m := w.OpenHandles(), w.OpenMappings(); len(h)+len(m) > 0 {
		add("leak|after-close", fmt.Sprintf("readers and writer were closed but still open: %v %v", h, m))
	}
	return
}

// ---------------- damage arm (C12) ----------------

type hdrInfo struct {
	start, length int
}

// parseHeaders locates the record headers of an undamaged v4 file from the known offsets.
func parseHeaders(data []byte, live []rioWritten) []hdrInfo {
	var out []hdrInfo
	for _, r := range live {
		p := int(r.off)
		q := p + 3 + 1
		for k := 0; k < 3; k++ {
			_, n := binary.Uvarint(data[q:])
			q += n
		}
		out = append(out, hdrInfo{p, q - p})
	}
	return out
}

func readAllSeq(path string, readBuf int) (recs [][]byte, nils []bool, openErr, readErr error) {
	defer func() {
		if r := recover(); r != nil {
			// a panic on damaged input returns no data; it is handed back as a read error
			readErr = fmt.Errorf("panic while reading: %v", r)
		}
	}()
	rd, err := recordio.NewFileReader(recordio.ReaderPath(path), recordio.ReaderBufferSizeBytes(readBuf))
	if err != nil {
		return nil, nil, err, nil
	}
	defer rd.Close()
	if err := rd.Open(); err != nil {
		return nil, nil, err, nil
	}
	for {
		b, err := rd.ReadNext()
		if errors.Is(err, io.EOF) {
			return recs, nils, nil, nil
		}
		if err != nil {
			return recs, nils, nil, err
		}
		recs = append(recs, b)
		nils = append(nils, b == nil)
		if len(recs) > 10000 {
			return recs, nils, nil, errors.New("runaway reader")
		}
	}
}

func rioDamage(c *Ctx, rc rioCase, tape *simrt.Tape, count bool) (vs []rioV, evals int) {
	dir := freshDir(c, "rio")
	defer os.RemoveAll(dir)
	add := func(sig, detail string) { vs = append(vs, rioV{sig, detail}) }
	path := filepath.Join(dir, "f.rio")
	rc.DirectIO = false
	live, _, err := rioWrite(path, rc)
	if err != nil {
		add("writer-error|"+normErr(err), err.Error())
		return
	}
	orig, err := os.ReadFile(path)
	if err != nil {
		panic(err)
	}
	hdrs := parseHeaders(orig, live)
	dmg := filepath.Join(dir, "d.rio")
	w := simrt.NewWorld(dir, tape)
	w.Record = false
	w.ReadChunkMax = rc.ReadChunk
	defer simrt.Deactivate()
	defer w.ReleaseAll()

	// --- truncation at every length (large files: every header byte, the bytes around every record boundary and
	// 300 further lengths) ---
	wantL := map[int]bool{}
	if len(orig) > 6000 {
		for i, h := range hdrs {
			for L := h.start - 2; L <= h.start+h.length+2; L++ {
				wantL[L] = true
			}
			_ = i
		}
		for L := len(orig) - 3; L <= len(orig); L++ {
			wantL[L] = true
		}
		rs := rand.New(rand.NewSource(int64(len(orig))))
		for k := 0; k < 300; k++ {
			wantL[rs.Intn(len(orig)+1)] = true
		}
		for L := 0; L < 12; L++ {
			wantL[L] = true
		}
	}
	for L := 0; L <= len(orig); L++ {
		if len(wantL) > 0 && !wantL[L] {
			continue
		}
		if err := os.WriteFile(dmg, orig[:L], 0600); err != nil {
			panic(err)
		}
		evals++
		Beat()
		complete := 0
		for i, r := range live {
			end := hdrs[i].start + hdrs[i].length
			if !r.nilRec {
				if i+1 < len(live) {
					end = int(live[i+1].off)
				} else {
					end = len(orig)
				}
			}
			if end <= L {
				complete = i + 1
			}
		}
		recs, _, openErr, readErr := readAllSeq(dmg, rc.ReadBuf)
		if L < recordio.FileHeaderSizeBytes {
			if openErr == nil {
				add("truncation|header-cut-accepted", fmt.Sprintf("file cut to %d bytes (inside the file header) was opened without error", L))
				return
			}
		} else {
			if openErr != nil {
				add("truncation|open-error:"+normErr(openErr), fmt.Sprintf("file cut to %d bytes (file header intact) cannot be opened: %v", L, openErr))
				return
			}
			for i, b := range recs {
				if i >= len(live) || !sameRec(b, live[i]) {
					wantD := "nothing (no such record)"
					if i < len(live) {
						wantD = recDesc(live[i].payload)
					}
					add("truncation|seq-returned-non-genuine-record", fmt.Sprintf("file cut to %d of %d bytes: sequential record #%d = %s, written %s (then err=%v)", L, len(orig), i, recDesc(b), wantD, readErr))
					return
				}
			}
			if len(recs) < complete {
				add("truncation|seq-lost-complete-record", fmt.Sprintf("file cut to %d of %d bytes: %d records are completely contained but only %d were returned (err=%v)", L, len(orig), complete, len(recs), readErr))
				return
			}
			if len(recs) > complete {
				add("truncation|seq-returned-incomplete-record", fmt.Sprintf("file cut to %d of %d bytes: only %d records are completely contained but %d were returned", L, len(orig), complete, len(recs)))
				return
			}
		}
		// the same cut file consumed with a mix of ReadNext and SkipNext (the case's skip mask): every record that a
		// read returns must be the one written at that position (skips move the position, they return nothing)
		if rc.SkipMask != 0 {
			pos, got, skipped, ok := mixedPass(dmg, rc.ReadBuf, rc.SkipMask)
			for _, p := range skipped {
				if p >= complete {
					add("truncation|skip-accepted-incomplete-record", fmt.Sprintf("file cut to %d of %d bytes, read/skip mask %x: SkipNext reported success for record #%d, but only %d records are completely contained (reading that record fails)", L, len(orig), rc.SkipMask, p, complete))
					return
				}
			}
			if ok {
				for j, b := range got {
					p := pos[j]
					if p >= len(live) || !sameRec(b, live[p]) {
						want := "nothing (end of file)"
						if p < len(live) {
							want = recDesc(live[p].payload)
						}
						add("truncation|read-skip-mix-returned-non-genuine-record", fmt.Sprintf("file cut to %d of %d bytes, read/skip mask %x: the read at position %d returned %s, written at that position: %s", L, len(orig), rc.SkipMask, p, recDesc(b), want))
						return
					}
					if p >= complete {
						add("truncation|read-skip-mix-returned-incomplete-record", fmt.Sprintf("file cut to %d of %d bytes, read/skip mask %x: position %d is not completely contained (%d are) but a read returned %s", L, len(orig), rc.SkipMask, p, complete, recDesc(b)))
						return
					}
				}
			}
		}
		// random access at the original offsets
		if L >= recordio.FileHeaderSizeBytes {
			mm, err := recordio.NewMemoryMappedReaderWithPath(dmg)
			if err == nil {
				err = mm.Open()
			}
			if err != nil {
				add("truncation|mmap-open-error:"+normErr(err), fmt.Sprintf("cut to %d bytes: %v", L, err))
				return
			}
			for i, r := range live {
				if int(r.off) > L {
					break
				}
				got, err := mm.ReadNextAt(r.off)
				if i < complete {
					if err != nil || !sameRec(got, r) {
						add("truncation|read-at-lost-complete-record", fmt.Sprintf("file cut to %d bytes: ReadNextAt(%d) of completely contained record #%d = (%s, %v)", L, r.off, i, recDesc(got), err))
						_ = mm.Close()
						return
					}
				} else if err == nil {
					add("truncation|read-at-returned-incomplete-record", fmt.Sprintf("file cut to %d of %d bytes: ReadNextAt(%d) of cut record #%d returned %s without error (written %s)", L, len(orig), r.off, i, recDesc(got), recDesc(r.payload)))
					_ = mm.Close()
					return
				}
			}
			_ = mm.Close()
		}
	}

	// --- record header bytes ---
	repl := func(old byte) []byte {
		var out []byte
		if (c.Thorough() && len(orig) <= 6000) || len(orig) <= 600 {
			for v := 0; v < 256; v++ {
				if byte(v) != old {
					out = append(out, byte(v))
				}
			}
			return out
		}
		for bit := 0; bit < 8; bit++ {
			out = append(out, old^(1<<bit))
		}
		for _, v := range []byte{0, 0xff, 0x91, 0x8d, 0x4c} {
			if v != old {
				out = append(out, v)
			}
		}
		return out
	}
	buf := make([]byte, len(orig))
	for i, h := range hdrs {
		for pos := h.start; pos < h.start+h.length; pos++ {
			for _, v := range repl(orig[pos]) {
				copy(buf, orig)
				buf[pos] = v
				if err := os.WriteFile(dmg, buf, 0600); err != nil {
					panic(err)
				}
				evals++
				Beat()
				where := fmt.Sprintf("record #%d header byte %d (file offset %d) %02x -> %02x", i, pos-h.start, pos, orig[pos], v)
				recs, _, openErr, readErr := readAllSeq(dmg, rc.ReadBuf)
				if openErr != nil {
					add("header-damage|open-error", where+": "+openErr.Error())
					return
				}
				for k := 0; k < len(recs) && k < i; k++ {
					if !sameRec(recs[k], live[k]) {
						add("header-damage|earlier-record-changed", fmt.Sprintf("%s: record #%d before the damage reads %s", where, k, recDesc(recs[k])))
						return
					}
				}
				if len(recs) > i {
					add("header-damage|seq-returned-data", fmt.Sprintf("%s: the sequential reader returned %s for that record instead of an error (written %s; later err=%v)", where, recDesc(recs[i]), recDesc(live[i].payload), readErr))
					return
				}
				if len(recs) < i {
					add("header-damage|seq-lost-earlier-record", fmt.Sprintf("%s: only %d records before the damaged one were returned (err=%v)", where, len(recs), readErr))
					return
				}
				if readErr == nil && count {
					// The damaged length fields can make the header parse run into the end of the file exactly at a
					// field boundary, which the reader reports as a plain end-of-file. No data is returned, so the
					// statement ("fail instead of returning data") is not contradicted; it is counted, not reported.
					c.Count("probe:header-damage-reported-as-plain-eof", 1)
				}
				// the same file with the records up to and including the damaged one skipped instead of read: skipping
				// may fail (it does, the header checksum is checked), but whatever is read afterwards must be the record
				// that was written at that position - a damaged length must not make the reader resynchronise on a
				// later record and hand it out as the next one
				if after, skipErr, ok := skipThenRead(dmg, rc.ReadBuf, i+1); ok {
					for j, b := range after {
						p := i + 1 + j
						if p >= len(live) || !sameRec(b, live[p]) {
							want := "nothing (end of file)"
							if p < len(live) {
								want = recDesc(live[p].payload)
							}
							add("header-damage|skip-then-read-wrong-record", fmt.Sprintf("%s: after skipping records #0..#%d (skip error: %v) read number %d returned %s, written at that position: %s", where, i, skipErr, j, recDesc(b), want))
							return
						}
					}
					if skipErr == nil && count {
						c.Count("probe:skip-over-damaged-header-succeeded", 1)
					}
				}
				mm, err := recordio.NewMemoryMappedReaderWithPath(dmg)
				if err == nil {
					err = mm.Open()
				}
				if err != nil {
					add("header-damage|mmap-open-error", where+": "+err.Error())
					return
				}
				got, err := mm.ReadNextAt(live[i].off)
				_ = mm.Close()
				if err == nil {
					add("header-damage|read-at-returned-data", fmt.Sprintf("%s: ReadNextAt(%d) returned %s instead of an error (written %s)", where, live[i].off, recDesc(got), recDesc(live[i].payload)))
					return
				}
			}
		}
	}

	// --- file header fields ---
	for _, ver := range []uint32{0, 5, 6, 255, 256, 1 << 31, 0xffffffff} {
		copy(buf, orig)
		binary.LittleEndian.PutUint32(buf[0:4], ver)
		_ = os.WriteFile(dmg, buf, 0600)
		evals++
		Beat()
		if _, _, openErr, _ := readAllSeq(dmg, rc.ReadBuf); openErr == nil {
			add("file-header|unsupported-version-accepted", fmt.Sprintf("version %d accepted by the sequential reader", ver))
			return
		}
		if mm, err := recordio.NewMemoryMappedReaderWithPath(dmg); err == nil {
			if err := mm.Open(); err == nil {
				add("file-header|unsupported-version-accepted", fmt.Sprintf("version %d accepted by the mmap reader", ver))
				_ = mm.Close()
				return
			}
			_ = mm.Close()
		}
	}
	for _, ct := range []uint32{4, 5, 255, 1 << 16, 0xffffffff} {
		copy(buf, orig)
		binary.LittleEndian.PutUint32(buf[4:8], ct)
		_ = os.WriteFile(dmg, buf, 0600)
		evals++
		Beat()
		if _, _, openErr, _ := readAllSeq(dmg, rc.ReadBuf); openErr == nil {
			add("file-header|unsupported-compression-accepted", fmt.Sprintf("compression code %d accepted by the sequential reader", ct))
			return
		}
		if mm, err := recordio.NewMemoryMappedReaderWithPath(dmg); err == nil {
			if err := mm.Open(); err == nil {
				add("file-header|unsupported-compression-accepted", fmt.Sprintf("compression code %d accepted by the mmap reader", ct))
				_ = mm.Close()
				return
			}
			_ = mm.Close()
		}
	}
	return
}

// skipThenRead skips the first n records of the file with SkipNext and reads the rest with ReadNext. It returns the
// records read after the skips (none when a skip failed) and the first skip error; ok is false when the file cannot
// be opened at all.
func skipThenRead(path string, readBuf, n int) (after [][]byte, skipErr error, ok bool) {
	defer func() {
		if r := recover(); r != nil {
			after, skipErr, ok = nil, fmt.Errorf("panic: %v", r), true
		}
	}()
	rd, err := recordio.NewFileReader(recordio.ReaderPath(path), recordio.ReaderBufferSizeBytes(readBuf))
	if err != nil {
		return nil, nil, false
	}
	defer rd.Close()
	if err := rd.Open(); err != nil {
		return nil, nil, false
	}
	for k := 0; k < n; k++ {
		if err := rd.SkipNext(); err != nil {
			return nil, err, true
		}
	}
	for {
		b, err := rd.ReadNext()
		if err != nil {
			return after, nil, true
		}
		after = append(after, b)
		if len(after) > 10000 {
			return after, nil, true
		}
	}
}

// mixedPass consumes the file with SkipNext where the mask has a one bit at the record's position (mod 64) and ReadNext
// elsewhere, until the first error or end of file. It returns the positions and payloads of the reads.
func mixedPass(path string, readBuf int, mask uint64) (pos []int, got [][]byte, skipped []int, ok bool) {
	defer func() {
		if r := recover(); r != nil {
			ok = true
		}
	}()
	rd, err := recordio.NewFileReader(recordio.ReaderPath(path), recordio.ReaderBufferSizeBytes(readBuf))
	if err != nil {
		return nil, nil, nil, false
	}
	defer rd.Close()
	if err := rd.Open(); err != nil {
		return nil, nil, nil, false
	}
	for p := 0; p < 10000; p++ {
		if mask&(1<<(uint(p)%64)) != 0 {
			if err := rd.SkipNext(); err != nil {
				return pos, got, skipped, true
			}
			skipped = append(skipped, p)
			continue
		}
		b, err := rd.ReadNext()
		if err != nil {
			return pos, got, skipped, true
		}
		pos = append(pos, p)
		got = append(got, b)
	}
	return pos, got, skipped, true
}

func rioRun(c *Ctx, rc rioCase, tape *simrt.Tape, count bool) ([]rioV, int) {
	if c.Mode == "damage" {
		return rioDamage(c, rc, tape, count)
	}
	var vs []rioV
	var evals int
	if msg := libPanic(func() { vs, evals = rioControl(c, rc, tape, count) }); msg != "" {
		simrt.Deactivate()
		return append(vs, rioV{"panic|" + normErr(errors.New(msg)), "writing or reading valid records panicked inside the library: " + msg}), evals
	}
	return vs, evals
}

func rioShrinks(c rioCase) []rioCase {
	var out []rioCase
	for i := range c.Records {
		d := c
		d.Records = append(append([]rioRec{}, c.Records[:i]...), c.Records[i+1:]...)
		for j := range d.Records {
			if d.Records[j].SeekBack >= i {
				d.Records[j].SeekBack = -1
			}
		}
		out = append(out, d)
	}
	for i, r := range c.Records {
		if r.Size > 1 {
			d := c
			d.Records = append([]rioRec{}, c.Records...)
			d.Records[i].Size = r.Size / 2
			out = append(out, d)
		}
		if r.SeekBack >= 0 {
			d := c
			d.Records = append([]rioRec{}, c.Records...)
			d.Records[i].SeekBack = -1
			out = append(out, d)
		}
	}
	if c.ReadChunk != 0 {
		d := c
		d.ReadChunk = 0
		out = append(out, d)
	}
	if c.Compression != 0 {
		d := c
		d.Compression = 0
		out = append(out, d)
	}
	if c.SkipMask != 0 {
		d := c
		d.SkipMask = 0
		out = append(out, d)
	}
	return out
}

func riosimMain(c *Ctx) {
	for i := 0; c.TimeLeft(); i++ {
		seed := c.RunSeed(i)
		r := rand.New(rand.NewSource(seed))
		rc := rioGen(r, c.Mode, c.Thorough())
		c.Begin(seed, rc)
		vs, evals := rioRun(c, rc, simrt.NewTape(seed), true)
		c.Res.Runs++
		c.Res.Evaluations += evals
		if len(rc.Records) > 0 {
			c.Distinct(hash64("rio", mustJSON(rc)))
		}
		nils, seeks := 0, 0
		for _, x := range rc.Records {
			if x.Nil {
				nils++
			}
			if x.SeekBack >= 0 {
				seeks++
			}
		}
		c.Count("probe:files-with-nil-records", min(nils, 1))
		c.Count("probe:files-with-writer-seek-back", min(seeks, 1))
		c.Count("probe:files-read-in-chunks", min(rc.ReadChunk, 1))
		c.Count(fmt.Sprintf("probe:compression-%d", rc.Compression), 1)
		if rc.DirectIO {
			c.Count("probe:direct-io-factory(stub)", 1)
		}
		if len(c.Res.Seeds) < 8 {
			c.Res.Seeds = append(c.Res.Seeds, seed)
		}
		c.Sample(map[string]any{"run_seed": seed, "case": rc})
		seen := map[string]bool{}
		for _, v := range vs {
			if seen[v.sig] {
				continue
			}
			seen[v.sig] = true
			min := rc
			if c.matchKnown(c.Property, v.sig) == "" && c.seenSig[c.Property+"|"+v.sig] == 0 {
				min = shrinkLoop(rc, rioShrinks, func(cand rioCase) bool {
					cv, _ := rioRun(c, cand, simrt.NewTape(seed), false)
					for _, x := range cv {
						if x.sig == v.sig {
							return true
						}
					}
					return false
				}, time.Now().Add(15*time.Second))
			}
			detail := v.detail
			cv, _ := rioRun(c, min, simrt.NewTape(seed), false)
			for _, x := range cv {
				if x.sig == v.sig {
					detail = x.detail
				}
			}
			c.Report(Violation{Sig: v.sig, Detail: detail}, &ReplayFile{RunSeed: seed, Case: mustJSON(min), Minimised: true})
		}
	}
}

func riosimReplay(c *Ctx, rf *ReplayFile) []Violation {
	var rc rioCase
	if err := json.Unmarshal(rf.Case, &rc); err != nil {
		panic(err)
	}
	c.Mode = rf.Mode
	vs, _ := rioRun(c, rc, simrt.NewTape(rf.RunSeed), false)
	var out []Violation
	for _, v := range vs {
		out = append(out, Violation{Property: rf.Property, Sig: v.sig, Detail: v.detail})
	}
	return out
}

package harness

import (
	"encoding/json"
	"fmt"
	"math/rand"
	"os"
	"sort"
	"strings"
	"time"

	"github.com/anishathalye/porcupine"
	"verifsim/simrt"
)

// linsim (C05): 2..4 client tasks against one SimpleDB handle with a memstore of
// a few dozen bytes (almost every Put rotates), flusher and compactor
// interleaved at every lock / disk call; the recorded history (stamped with
// global event sequence numbers) is checked with porcupine against a per-key
// register model.

func init() {
	harnesses["linsim"] = linsimMain
	replayers["linsim"] = linsimReplay
}

func linGen(r *rand.Rand, thorough bool) dbCase {
	nkeys := 1 + r.Intn(4)
	c := dbCase{Keys: genKeys(r, nkeys)}
	nsess := 1
	if r.Intn(4) == 0 {
		nsess = 2
	}
	for s := 0; s < nsess; s++ {
		opts := genOpts(r)
		opts.Memstore = pick(r, uint64(40), 64, 64, 100, 200, 600)
		opts.Threshold = pick(r, 0, 1, 1, 2)
		opts.Compactions = r.Intn(8) != 0
		opts.WriteBuf = pick(r, uint64(64), 256, 4096, 4<<20)
		nclients := 2 + r.Intn(3)
		var clients [][]dbOp
		for ci := 0; ci < nclients; ci++ {
			nops := 5 + r.Intn(12)
			if thorough {
				nops = 10 + r.Intn(30)
			}
			clients = append(clients, genProgram(r, nkeys, nops, 40, 15))
		}
		knobs := genKnobs(r)
		knobs.Advance = pick(r, 1, 1, 2, 4)
		knobs.UnlockYield = r.Intn(3) == 0
		c.Sessions = append(c.Sessions, dbSession{Opts: opts, Clients: clients, Knobs: knobs})
	}
	c.OddName = r.Intn(8) == 0
	return c
}

type regIn struct {
	kind string
	val  string
}
type regOut struct {
	val   string
	found bool
}

var registerModel = porcupine.Model{
	Init: func() interface{} { return "" }, // "" = absent (values are never empty)
	Step: func(state, input, output interface{}) (bool, interface{}) {
		in := input.(regIn)
		st := state.(string)
		switch in.kind {
		case "put":
			return true, in.val
		case "del":
			return true, ""
		default:
			out := output.(regOut)
			if out.found {
				return out.val == st && st != "", state
			}
			return st == "", state
		}
	},
	Equal: func(a, b interface{}) bool { return a.(string) == b.(string) },
}

// checkLinearizable partitions the history by key and returns the first illegal partition.
func checkLinearizable(hist []*opRec, timeout time.Duration) (verdict string, badKey string, ops []*opRec) {
	byKey := map[string][]*opRec{}
	for _, op := range hist {
		if op.Ret == 0 || op.Err != "" {
			continue
		}
		byKey[op.Key] = append(byKey[op.Key], op)
	}
	keys := make([]string, 0, len(byKey))
	for k := range byKey {
		keys = append(keys, k)
	}
	sort.Strings(keys)
	verdict = "ok"
	for _, k := range keys {
		var pops []porcupine.Operation
		for _, op := range byKey[k] {
			pops = append(pops, porcupine.Operation{
				ClientId: op.Session*16 + op.Client,
				Input:    regIn{op.Kind, op.Val},
				Call:     int64(op.Inv),
				Output:   regOut{op.Val, op.Found},
				Return:   int64(op.Ret),
			})
		}
		switch porcupine.CheckOperationsTimeout(registerModel, pops, timeout) {
		case porcupine.Illegal:
			return "illegal", k, byKey[k]
		case porcupine.Unknown:
			verdict = "unknown"
		}
	}
	return verdict, "", nil
}

func runLinCase(c *Ctx, dc dbCase, tape *simrt.Tape) dbsimOutcome {
	c.oddNames = dc.OddName
	dir := freshDir(c, "db")
	defer os.RemoveAll(dir)
	r := newDBRunner(c.T, dir, tape, dc.Keys)
	defer simrt.Deactivate()
	defer r.w.ReleaseAll()
	var out dbsimOutcome
	add := func(sig, detail string) { out.vs = append(out.vs, dbViolation{sig, detail}) }
	for si, s := range dc.Sessions {
		res := r.runSession(si, s)
		out.steps += res.Run.Steps
		out.simTime += res.Run.SimTime
		out.pickHash = out.pickHash*31 + res.Run.PickHash
		bad := ""
		switch {
		case res.OpenErr != nil:
			bad = "open-error|" + normErr(res.OpenErr)
		case len(res.Stopped) > 0:
			bad = "process-stopped|" + normErr(fmt.Errorf("%s", firstLine(res.Stopped[0])))
		case res.SchedErr != nil:
			bad = "liveness|" + res.SchedErr.Error()
		case res.CloseErr != nil:
			bad = "close-error|" + normErr(res.CloseErr)
		}
		if bad != "" {
			add(bad, fmt.Sprintf("session %d failed: %s %v", si, bad, res.TasksLeft))
			break
		}
		if res.Unfinished {
			return out
		}
	}
	for _, op := range r.hist {
		if op.Err != "" {
			add("api-error|"+op.Kind+":"+normErr(fmt.Errorf("%s", op.Err)), fmt.Sprintf("%s(%q) returned %s", op.Kind, op.Key, op.Err))
			break
		}
	}
	simrt.Deactivate()
	verdict, key, ops := checkLinearizable(r.hist, 10*time.Second)
	out.hist = r.hist
	out.trace = r.w.Trace()
	out.tasks = 0
	if verdict == "illegal" {
		var sb strings.Builder
		for i, op := range ops {
			if i >= 24 {
				sb.WriteString(" ...")
				break
			}
			fmt.Fprintf(&sb, " [c%d.%d %s", op.Session, op.Client, op.Kind)
			if op.Kind == "put" {
				fmt.Fprintf(&sb, "=%s", head([]byte(op.Val)))
			}
			if op.Kind == "get" {
				fmt.Fprintf(&sb, "->%s/%v", head([]byte(op.Val)), op.Found)
			}
			fmt.Fprintf(&sb, " @%d-%d]", op.Inv, op.Ret)
		}
		add("not-linearizable|register", fmt.Sprintf("history of key %q has no linearization:%s", key, sb.String()))
	}
	out.partial = 0
	if verdict == "unknown" {
		out.partial = 1
	}
	for _, l := range r.w.Logs {
		if strings.HasPrefix(l, "done compacting") {
			out.compacted++
		}
		if strings.HasPrefix(l, "done flushing") {
			out.flushed++
		}
	}
	return out
}

func linsimMain(c *Ctx) {
	for i := 0; c.TimeLeft(); i++ {
		seed := c.RunSeed(i)
		r := rand.New(rand.NewSource(seed))
		dc := linGen(r, c.Thorough())
		tape := simrt.NewTape(seed)
		tape.NoRec = simrt.RaceBuild
		c.Begin(seed, dc)
		out := runLinCase(c, dc, tape)
		if simrt.RaceBuild {
			sigs, details := raceSigs(raceDelta())
			c.Count("race-reports", len(sigs))
			for k := range sigs {
				out.vs = append(out.vs, dbViolation{sigs[k], details[k]})
			}
		}
		c.Res.Runs++
		c.RunHash(out.trace, out.pickHash, histDigest(out.hist))
		c.Res.Evaluations++ // one history checked
		c.Res.SimSeconds += out.simTime.Seconds()
		c.Count("sched-steps", out.steps)
		c.Count("history-ops", len(out.hist))
		c.Count("porcupine-unknown", out.partial)
		c.Count("probe:compactions-completed", out.compacted)
		c.Count("probe:flushes-completed", out.flushed)
		// overlap probe: an operation invoked while another client's operation was in flight
		overlaps := 0
		for _, a := range out.hist {
			for _, b := range out.hist {
				if a != b && a.Inv < b.Inv && b.Inv < a.Ret && a.Key == b.Key {
					overlaps++
				}
			}
		}
		c.Count("probe:overlapping-op-pairs-same-key", overlaps)
		if out.flushed > 0 && overlaps > 0 {
			c.Distinct(hash64("lin", out.pickHash, len(out.trace)))
		}
		if len(c.Res.Seeds) < 8 {
			c.Res.Seeds = append(c.Res.Seeds, seed)
		}
		if i < 2 {
			c.Sample(map[string]any{"run_seed": seed, "keys": len(dc.Keys), "sessions": summarizeSessions(dc), "history_ops": len(out.hist), "overlapping_pairs": overlaps, "flushes": out.flushed, "compactions": out.compacted, "sched_steps": out.steps})
		}
		seen := map[string]bool{}
		for _, v := range out.vs {
			if seen[v.sig] {
				continue
			}
			seen[v.sig] = true
			reportDB(c, "linsim", dc, tape, seed, v, func(cand dbCase, tp *simrt.Tape) []dbViolation {
				return runLinCase(c, cand, tp).vs
			})
		}
	}
}

func linsimReplay(c *Ctx, rf *ReplayFile) []Violation {
	var dc dbCase
	if err := json.Unmarshal(rf.Case, &dc); err != nil {
		panic(err)
	}
	var out []Violation
	vs := runLinCase(c, dc, tapeFor(rf)).vs
	if simrt.RaceBuild {
		sigs, details := raceSigs(raceDelta())
		for k := range sigs {
			vs = append(vs, dbViolation{sigs[k], details[k]})
		}
	}
	for _, v := range vs {
		out = append(out, Violation{Property: rf.Property, Sig: v.sig, Detail: v.detail})
	}
	return out
}

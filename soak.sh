#!/bin/bash
# usage: soak.sh <tier> <first-seed> <last-seed> [props...]   (env VERIF_PROCS)
# runs the registered checks with other seeds against /repo; evidence and replays go to ./soak-evidence (never /verif/evidence).
# one line per check; anything but rc=0 is printed with its output tail. Not a registered check: a soak tool.
tier=$1; s0=$2; s1=$3; shift 3
props=${@:-C01 C02 C03 C04 C05 C06 C07 C09 C10 C11 C12 C13 C15 C17 C18 C19}
here=$(cd "$(dirname "$0")" && pwd)
export VERIF_EVIDENCE=$here/soak-evidence
mkdir -p $VERIF_EVIDENCE
for seed in $(seq $s0 $s1); do
  for p in $props; do
    out=$($here/verifctl check $p --tier $tier --seed $seed 2>&1); rc=$?
    echo "seed=$seed $p rc=$rc $(echo "$out" | grep -E "^$p " | head -1)"
    if [ $rc -ne 0 ]; then echo "$out" | tail -40; fi
  done
done

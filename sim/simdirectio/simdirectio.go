// Package simdirectio replaces github.com/ncw/directio in the instrumented
// copy. DECLARED STUB: the O_DIRECT flag is dropped (tmpfs rejects it); files
// are opened through the simulated disk, which enforces O_DIRECT's alignment
// rules on writes (buffer address, length and file offset multiples of 512).
package simdirectio

import (
	"github.com/ncw/directio"

	"verifsim/simos"
)

const (
	AlignSize = directio.AlignSize
	BlockSize = directio.BlockSize
)

func AlignedBlock(n int) []byte { return directio.AlignedBlock(n) }

func OpenFile(name string, flag int, perm simos.FileMode) (*simos.File, error) {
	f, err := simos.OpenFile(name, flag, perm)
	if err == nil {
		f.SetDirect()
	}
	return f, err
}

module verifsim

go 1.26

require github.com/ncw/directio v1.0.5

// Package simos replaces package os in the instrumented copy of the code under
// test. Every operation is performed for real on the host file system; inside
// the active World's root it is additionally a scheduling point, recorded in
// the event trace, counted in the resource ledger and subject to fault
// injection.
package simos

import (
	"errors"
	"io"
	"io/fs"
	"os"
	"path/filepath"
	"sort"
	"syscall"
	"time"
	"unsafe"

	"verifsim/simrt"
)

// ---- re-exported constants, types and pure helpers ----

const (
	O_RDONLY = os.O_RDONLY
	O_WRONLY = os.O_WRONLY
	O_RDWR   = os.O_RDWR
	O_APPEND = os.O_APPEND
	O_CREATE = os.O_CREATE
	O_EXCL   = os.O_EXCL
	O_SYNC   = os.O_SYNC
	O_TRUNC  = os.O_TRUNC

	ModePerm      = os.ModePerm
	ModeDir       = os.ModeDir
	ModeAppend    = os.ModeAppend
	ModeSymlink   = os.ModeSymlink
	ModeType      = os.ModeType
	PathSeparator = os.PathSeparator
	DevNull       = os.DevNull
	SEEK_SET      = 0
	SEEK_CUR      = 1
	SEEK_END      = 2
)

type (
	FileInfo     = fs.FileInfo
	FileMode     = fs.FileMode
	DirEntry     = fs.DirEntry
	PathError    = fs.PathError
	LinkError    = os.LinkError
	SyscallError = os.SyscallError
	Signal       = os.Signal
)

var (
	ErrInvalid          = fs.ErrInvalid
	ErrPermission       = fs.ErrPermission
	ErrExist            = fs.ErrExist
	ErrNotExist         = fs.ErrNotExist
	ErrClosed           = fs.ErrClosed
	ErrDeadlineExceeded = os.ErrDeadlineExceeded
	Args                = os.Args
	Interrupt           = os.Interrupt
	Kill                = os.Kill

	Stdin  = &File{f: os.Stdin}
	Stdout = &File{f: os.Stdout}
	Stderr = &File{f: os.Stderr}
)

func IsNotExist(err error) bool                     { return os.IsNotExist(err) }
func IsExist(err error) bool                        { return os.IsExist(err) }
func IsPermission(err error) bool                   { return os.IsPermission(err) }
func IsTimeout(err error) bool                      { return os.IsTimeout(err) }
func IsPathSeparator(c uint8) bool                  { return os.IsPathSeparator(c) }
func Getenv(k string) string                        { return os.Getenv(k) }
func Setenv(k, v string) error                      { return os.Setenv(k, v) }
func Unsetenv(k string) error                       { return os.Unsetenv(k) }
func LookupEnv(k string) (string, bool)             { return os.LookupEnv(k) }
func Environ() []string                             { return os.Environ() }
func Getpid() int                                   { return os.Getpid() }
func Getppid() int                                  { return os.Getppid() }
func Getuid() int                                   { return os.Getuid() }
func Getwd() (string, error)                        { return os.Getwd() }
func Hostname() (string, error)                     { return os.Hostname() }
func TempDir() string                               { return os.TempDir() }
func UserHomeDir() (string, error)                  { return os.UserHomeDir() }
func Getpagesize() int                              { return os.Getpagesize() }
func Exit(code int)                                 { os.Exit(code) }
func SameFile(a, b FileInfo) bool                   { return os.SameFile(a, b) }
func Expand(s string, m func(string) string) string { return os.Expand(s, m) }
func ExpandEnv(s string) string                     { return os.ExpandEnv(s) }
func NewSyscallError(s string, err error) error     { return os.NewSyscallError(s, err) }
func DirFS(dir string) fs.FS                        { return os.DirFS(dir) }
func Chtimes(name string, a, m time.Time) error     { return os.Chtimes(name, a, m) }

func errnoOf(name string) syscall.Errno {
	switch name {
	case "ENOSPC":
		return syscall.ENOSPC
	case "EMFILE":
		return syscall.EMFILE
	case "EINVAL":
		return syscall.EINVAL
	}
	return syscall.EIO
}

func world(path string) (*simrt.World, string) {
	w := simrt.W()
	if w == nil {
		return nil, ""
	}
	rel, ok := w.Rel(path)
	if !ok {
		return nil, ""
	}
	return w, rel
}

func fault(w *simrt.World, op, kind, rel string) error {
	if f, ok := w.CheckFault(kind, rel); ok {
		w.Emit(simrt.Event{Kind: simrt.EvFault, Path: rel, Note: kind + ":" + f.Errno})
		return &fs.PathError{Op: op, Path: filepath.Join(w.Root, rel), Err: errnoOf(f.Errno)}
	}
	return nil
}

// ---- File ----

// File wraps a real *os.File.
type File struct {
	f      *os.File
	w      *simrt.World
	rel    string
	hid    uint64
	closed bool
	wrote  bool
	app    bool
	direct bool // opened through simdirectio: O_DIRECT is not set (tmpfs), its alignment rules are enforced here
}

// SetDirect marks the handle as a direct-I/O handle (used by simdirectio).
func (f *File) SetDirect() { f.direct = true }

// directAlign is the granularity the simulated O_DIRECT demands of buffer address, length and file offset. Real
// devices demand their logical block size (512 or 4096 bytes); the smaller value is used so that nothing is
// rejected that some real device would accept.
const directAlign = 512

func misaligned(p []byte, off int64) bool {
	if len(p) == 0 {
		return false
	}
	return len(p)%directAlign != 0 || off%directAlign != 0 || uintptr(unsafe.Pointer(&p[0]))%directAlign != 0
}

// Real returns the underlying *os.File (used by simmmap and the harness).
func (f *File) Real() *os.File { return f.f }

func (f *File) Name() string                         { return f.f.Name() }
func (f *File) Fd() uintptr                          { return f.f.Fd() }
func (f *File) Stat() (FileInfo, error)              { return f.f.Stat() }
func (f *File) Chmod(m FileMode) error               { return f.f.Chmod(m) }
func (f *File) SetDeadline(t time.Time) error        { return f.f.SetDeadline(t) }
func (f *File) ReadDir(n int) ([]DirEntry, error)    { return f.f.ReadDir(n) }
func (f *File) Readdir(n int) ([]FileInfo, error)    { return f.f.Readdir(n) }
func (f *File) Readdirnames(n int) ([]string, error) { return f.f.Readdirnames(n) }

func (f *File) Read(p []byte) (int, error) {
	if f.w != nil && f.w == simrt.W() && f.w.FaultFilter != nil {
		if ft, ok := f.w.CheckFault("read", f.rel); ok {
			f.w.Emit(simrt.Event{Kind: simrt.EvFault, Path: f.rel, Note: "read:" + ft.Errno})
			return 0, &fs.PathError{Op: "read", Path: f.f.Name(), Err: errnoOf(ft.Errno)}
		}
	}
	if f.w != nil && f.w == simrt.W() && f.w.ReadChunkMax > 0 && len(p) > 1 {
		max := f.w.ReadChunkMax
		if max > len(p) {
			max = len(p)
		}
		n := 1 + f.w.Tape.Intn(max, "readchunk")
		p = p[:n]
	}
	return f.f.Read(p)
}

func (f *File) ReadAt(p []byte, off int64) (int, error) { return f.f.ReadAt(p, off) }

func (f *File) ReadFrom(r io.Reader) (int64, error) {
	// route through Write so that every write is an event
	buf := make([]byte, 32*1024)
	var total int64
	for {
		n, err := r.Read(buf)
		if n > 0 {
			m, werr := f.Write(buf[:n])
			total += int64(m)
			if werr != nil {
				return total, werr
			}
		}
		if err == io.EOF {
			return total, nil
		}
		if err != nil {
			return total, err
		}
	}
}

func (f *File) Seek(off int64, whence int) (int64, error) { return f.f.Seek(off, whence) }

func (f *File) active() bool { return f.w != nil && f.w == simrt.W() }

func (f *File) Write(p []byte) (int, error) {
	if !f.active() {
		return f.f.Write(p)
	}
	simrt.Yield("fs:write")
	off, err := f.f.Seek(0, io.SeekCurrent)
	if err != nil {
		return 0, err
	}
	if f.app {
		if fi, e := f.f.Stat(); e == nil {
			off = fi.Size()
		}
	}
	if f.direct && misaligned(p, off) {
		f.w.Probe("direct-io-misaligned-write-rejected")
		return 0, &fs.PathError{Op: "write", Path: f.f.Name(), Err: syscall.EINVAL}
	}
	if ft, ok := f.w.CheckFault("write", f.rel); ok {
		n := 0
		if ft.Short > 0 && ft.Short < len(p) {
			n, _ = f.f.Write(p[:ft.Short])
			if n > 0 {
				f.w.Emit(simrt.Event{Kind: simrt.EvWrite, Path: f.rel, Off: off, Data: append([]byte(nil), p[:n]...)})
			}
		}
		f.w.Emit(simrt.Event{Kind: simrt.EvFault, Path: f.rel, Note: "write:" + ft.Errno})
		return n, &fs.PathError{Op: "write", Path: f.f.Name(), Err: errnoOf(ft.Errno)}
	}
	n, err := f.f.Write(p)
	if n > 0 {
		f.wrote = true
		f.w.Emit(simrt.Event{Kind: simrt.EvWrite, Path: f.rel, Off: off, Data: append([]byte(nil), p[:n]...)})
	}
	return n, err
}

func (f *File) WriteString(s string) (int, error) { return f.Write([]byte(s)) }

func (f *File) WriteAt(p []byte, off int64) (int, error) {
	if !f.active() {
		return f.f.WriteAt(p, off)
	}
	simrt.Yield("fs:write")
	if ft, ok := f.w.CheckFault("write", f.rel); ok {
		f.w.Emit(simrt.Event{Kind: simrt.EvFault, Path: f.rel, Note: "write:" + ft.Errno})
		return 0, &fs.PathError{Op: "write", Path: f.f.Name(), Err: errnoOf(ft.Errno)}
	}
	n, err := f.f.WriteAt(p, off)
	if n > 0 {
		f.wrote = true
		f.w.Emit(simrt.Event{Kind: simrt.EvWrite, Path: f.rel, Off: off, Data: append([]byte(nil), p[:n]...)})
	}
	return n, err
}

func (f *File) Sync() error {
	if !f.active() {
		return f.f.Sync()
	}
	simrt.Yield("fs:fsync")
	if err := fault(f.w, "sync", "fsync", f.rel); err != nil {
		return err
	}
	// tmpfs: fsync is a no-op; we still issue it
	err := f.f.Sync()
	if err == nil {
		f.w.Emit(simrt.Event{Kind: simrt.EvFsync, Path: f.rel})
	}
	return err
}

func (f *File) Truncate(size int64) error {
	if !f.active() {
		return f.f.Truncate(size)
	}
	simrt.Yield("fs:truncate")
	if err := fault(f.w, "truncate", "truncate", f.rel); err != nil {
		return err
	}
	err := f.f.Truncate(size)
	if err == nil {
		f.w.Emit(simrt.Event{Kind: simrt.EvTruncate, Path: f.rel, N: size})
	}
	return err
}

func (f *File) Close() error {
	if f == nil {
		return os.ErrInvalid
	}
	if !f.active() {
		if f.w != nil && !f.closed {
			f.closed = true
			f.w.HandleClosed(f.hid)
		}
		return f.f.Close()
	}
	if f.wrote {
		simrt.Yield("fs:close")
	}
	err := f.f.Close()
	if !f.closed {
		f.closed = true
		f.w.HandleClosed(f.hid)
		f.w.Emit(simrt.Event{Kind: simrt.EvClose, Path: f.rel})
	}
	return err
}

// ---- opening ----

func OpenFile(name string, flag int, perm FileMode) (*File, error) {
	w, rel := world(name)
	if w == nil {
		f, err := os.OpenFile(name, flag, perm)
		if err != nil {
			return nil, err
		}
		return &File{f: f}, nil
	}
	simrt.Yield("fs:open")
	existed := true
	if flag&os.O_CREATE != 0 {
		if _, err := os.Lstat(name); err != nil {
			existed = false
		}
	}
	kind := "open"
	if !existed {
		kind = "create"
	}
	if err := fault(w, "open", kind, rel); err != nil {
		return nil, err
	}
	if w.FDLimit > 0 && w.HandleCount() >= w.FDLimit {
		w.Probe("open-refused-at-descriptor-limit")
		return nil, &os.PathError{Op: "open", Path: name, Err: syscall.EMFILE}
	}
	var oldSize int64 = -1
	if existed && flag&os.O_TRUNC != 0 {
		if fi, err := os.Stat(name); err == nil && fi.Mode().IsRegular() {
			oldSize = fi.Size()
		}
	}
	f, err := os.OpenFile(name, flag, perm)
	if err != nil {
		return nil, err
	}
	if !existed {
		w.Emit(simrt.Event{Kind: simrt.EvCreate, Path: rel})
	} else if oldSize > 0 {
		w.Emit(simrt.Event{Kind: simrt.EvTruncate, Path: rel, N: 0})
	}
	sf := &File{f: f, w: w, rel: rel, app: flag&os.O_APPEND != 0}
	sf.hid = w.HandleOpened(rel, func() { _ = f.Close() })
	w.Emit(simrt.Event{Kind: simrt.EvOpen, Path: rel})
	return sf, nil
}

func Open(name string) (*File, error) { return OpenFile(name, os.O_RDONLY, 0) }

func Create(name string) (*File, error) {
	return OpenFile(name, os.O_RDWR|os.O_CREATE|os.O_TRUNC, 0666)
}

const tempChars = "0123456789"

func tempSuffix(w *simrt.World) string {
	b := make([]byte, 10)
	for i := range b {
		b[i] = tempChars[w.Tape.Intn(10, "tempname")]
	}
	return string(b)
}

func splitPattern(pattern string) (string, string) {
	for i := len(pattern) - 1; i >= 0; i-- {
		if pattern[i] == '*' {
			return pattern[:i], pattern[i+1:]
		}
	}
	return pattern, ""
}

func CreateTemp(dir, pattern string) (*File, error) {
	if dir == "" {
		dir = os.TempDir()
	}
	w, _ := world(dir)
	if w == nil {
		f, err := os.CreateTemp(dir, pattern)
		if err != nil {
			return nil, err
		}
		return &File{f: f}, nil
	}
	pre, suf := splitPattern(pattern)
	for try := 0; try < 10000; try++ {
		name := filepath.Join(dir, pre+tempSuffix(w)+suf)
		f, err := OpenFile(name, os.O_RDWR|os.O_CREATE|os.O_EXCL, 0600)
		if os.IsExist(err) {
			continue
		}
		return f, err
	}
	return nil, &fs.PathError{Op: "createtemp", Path: dir, Err: fs.ErrExist}
}

func MkdirTemp(dir, pattern string) (string, error) {
	if dir == "" {
		dir = os.TempDir()
	}
	w, _ := world(dir)
	if w == nil {
		return os.MkdirTemp(dir, pattern)
	}
	pre, suf := splitPattern(pattern)
	for try := 0; try < 10000; try++ {
		name := filepath.Join(dir, pre+tempSuffix(w)+suf)
		if _, err := os.Lstat(name); err == nil {
			continue
		}
		err := Mkdir(name, 0700)
		if os.IsExist(err) {
			continue
		}
		if err != nil {
			return "", err
		}
		return name, nil
	}
	return "", &fs.PathError{Op: "mkdirtemp", Path: dir, Err: fs.ErrExist}
}

// ---- namespace operations ----

func Stat(name string) (FileInfo, error)      { return os.Stat(name) }
func Lstat(name string) (FileInfo, error)     { return os.Lstat(name) }
func ReadDir(name string) ([]DirEntry, error) { return os.ReadDir(name) }
func Readlink(name string) (string, error)    { return os.Readlink(name) }
func Chmod(name string, m FileMode) error     { return os.Chmod(name, m) }

func ReadFile(name string) ([]byte, error) {
	f, err := Open(name)
	if err != nil {
		return nil, err
	}
	defer f.Close()
	return io.ReadAll(f.f)
}

func WriteFile(name string, data []byte, perm FileMode) error {
	f, err := OpenFile(name, os.O_WRONLY|os.O_CREATE|os.O_TRUNC, perm)
	if err != nil {
		return err
	}
	_, err = f.Write(data)
	if err1 := f.Close(); err1 != nil && err == nil {
		err = err1
	}
	return err
}

func Mkdir(name string, perm FileMode) error {
	w, rel := world(name)
	if w == nil {
		return os.Mkdir(name, perm)
	}
	simrt.Yield("fs:mkdir")
	if _, err := os.Lstat(name); err != nil {
		if err := fault(w, "mkdir", "mkdir", rel); err != nil {
			return err
		}
	}
	err := os.Mkdir(name, perm)
	if err == nil {
		w.Emit(simrt.Event{Kind: simrt.EvMkdir, Path: rel})
	}
	return err
}

func MkdirAll(path string, perm FileMode) error {
	w, _ := world(path)
	if w == nil {
		return os.MkdirAll(path, perm)
	}
	// fast path
	if fi, err := os.Stat(path); err == nil {
		if fi.IsDir() {
			return nil
		}
		return &fs.PathError{Op: "mkdir", Path: path, Err: syscall.ENOTDIR}
	}
	parent := filepath.Dir(filepath.Clean(path))
	if parent != path && parent != "." && parent != "/" {
		if _, ok := w.Rel(parent); ok {
			if err := MkdirAll(parent, perm); err != nil {
				return err
			}
		} else if err := os.MkdirAll(parent, perm); err != nil {
			return err
		}
	}
	err := Mkdir(path, perm)
	if err != nil {
		if fi, err1 := os.Lstat(path); err1 == nil && fi.IsDir() {
			return nil
		}
		return err
	}
	return nil
}

func Remove(name string) error {
	w, rel := world(name)
	if w == nil {
		return os.Remove(name)
	}
	simrt.Yield("fs:remove")
	fi, lerr := os.Lstat(name)
	if lerr != nil {
		return os.Remove(name) // produces the genuine error
	}
	kind, ev := "unlink", simrt.EvUnlink
	if fi.IsDir() {
		kind, ev = "rmdir", simrt.EvRmdir
	}
	if err := fault(w, "remove", kind, rel); err != nil {
		return err
	}
	err := os.Remove(name)
	if err == nil {
		w.Emit(simrt.Event{Kind: ev, Path: rel})
	}
	return err
}

func RemoveAll(path string) error {
	w, _ := world(path)
	if w == nil {
		return os.RemoveAll(path)
	}
	fi, err := os.Lstat(path)
	if err != nil {
		if os.IsNotExist(err) {
			return nil
		}
		return err
	}
	if !fi.IsDir() {
		err := Remove(path)
		if os.IsNotExist(err) {
			return nil
		}
		return err
	}
	entries, err := os.ReadDir(path)
	if err != nil {
		return err
	}
	names := make([]string, 0, len(entries))
	for _, e := range entries {
		names = append(names, e.Name())
	}
	sort.Strings(names)
	if w.PermuteUnlink && len(names) > 1 {
		perm := w.Tape.Perm(len(names), "unlinkorder")
		out := make([]string, len(names))
		for i, j := range perm {
			out[i] = names[j]
		}
		names = out
	}
	for _, n := range names {
		if err := RemoveAll(filepath.Join(path, n)); err != nil {
			return err
		}
	}
	err = Remove(path)
	if os.IsNotExist(err) {
		return nil
	}
	return err
}

func Rename(oldpath, newpath string) error {
	w, rel := world(oldpath)
	w2, rel2 := world(newpath)
	if w == nil || w2 == nil {
		return os.Rename(oldpath, newpath)
	}
	simrt.Yield("fs:rename")
	if err := fault(w, "rename", "rename", rel); err != nil {
		return err
	}
	err := os.Rename(oldpath, newpath)
	if err == nil {
		w.Emit(simrt.Event{Kind: simrt.EvRename, Path: rel, Path2: rel2})
	}
	return err
}

func Truncate(name string, size int64) error {
	w, rel := world(name)
	if w == nil {
		return os.Truncate(name, size)
	}
	simrt.Yield("fs:truncate")
	if err := fault(w, "truncate", "truncate", rel); err != nil {
		return err
	}
	err := os.Truncate(name, size)
	if err == nil {
		w.Emit(simrt.Event{Kind: simrt.EvTruncate, Path: rel, N: size})
	}
	return err
}

func Link(oldname, newname string) error {
	return errors.New("simos: Link is not supported by the simulated disk")
}

func Symlink(oldname, newname string) error {
	return errors.New("simos: Symlink is not supported by the simulated disk")
}

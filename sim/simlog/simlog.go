// Package simlog replaces package log in the instrumented copy: output is
// captured per run, and Panic*/Fatal* become recorded process-stopped events
// that unwind the calling task.
package simlog

import (
	"fmt"
	"io"
	"log"
	"strings"

	"verifsim/simrt"
)

const (
	Ldate         = log.Ldate
	Ltime         = log.Ltime
	Lmicroseconds = log.Lmicroseconds
	Llongfile     = log.Llongfile
	Lshortfile    = log.Lshortfile
	LUTC          = log.LUTC
	Lmsgprefix    = log.Lmsgprefix
	LstdFlags     = log.LstdFlags
)

type Logger = log.Logger

func New(out io.Writer, prefix string, flag int) *Logger { return log.New(out, prefix, flag) }
func Default() *Logger                                   { return log.Default() }
func SetOutput(w io.Writer)                              {}
func SetFlags(flag int)                                  {}
func SetPrefix(p string)                                 {}
func Flags() int                                         { return log.LstdFlags }
func Prefix() string                                     { return "" }
func Writer() io.Writer                                  { return io.Discard }

func out(s string) {
	if w := simrt.W(); w != nil {
		// a scheduling point: a task woken natively by a channel hand-off must not record anything before the
		// scheduler has released it, otherwise the event order would depend on the Go runtime
		simrt.Yield("log")
		// the scratch directory's name differs from process to process: keep it out of the event log
		s = hideRoot(s, w.Root)
		w.AddLog(s)
		w.Emit(simrt.Event{Kind: simrt.EvLog, Note: s})
	}
}

// hideRoot replaces the scratch directory's (random) name, in its absolute spelling and - for databases opened with a
// relative base path - as a bare directory name.
func hideRoot(s, root string) string {
	s = strings.ReplaceAll(s, root, "$ROOT")
	if i := strings.LastIndexByte(root, '/'); i >= 0 && i+1 < len(root) {
		s = strings.ReplaceAll(s, root[i+1:], "$ROOT")
	}
	return s
}

func stop(s string) {
	if w := simrt.W(); w != nil {
		simrt.Yield("log")
		s = hideRoot(s, w.Root)
		// like the real log.Panicf: print, then panic. The process is only gone when the panic has unwound the
		// goroutine - its deferred functions run first, and one that blocks (a send nobody receives) keeps the
		// process alive. simrt records the stop when the panic arrives at the top of the task.
		w.AddLog("panic: " + s)
		w.Emit(simrt.Event{Kind: simrt.EvLog, Note: "panic: " + s})
		panic(simrt.StopPanic{Msg: s})
	}
	panic(s)
}

// exit is log.Fatal*: os.Exit(1) right away, no deferred function runs. The process stop is recorded at once and the
// task is unwound.
func exit(s string) {
	if w := simrt.W(); w != nil {
		simrt.Yield("log")
		s = hideRoot(s, w.Root)
		w.ProcessStopped(s)
		panic(simrt.StopPanic{Msg: s})
	}
	panic(s)
}

func Printf(format string, v ...any) { out(fmt.Sprintf(format, v...)) }
func Print(v ...any)                 { out(fmt.Sprint(v...)) }
func Println(v ...any)               { out(fmt.Sprintln(v...)) }
func Panicf(format string, v ...any) { stop(fmt.Sprintf(format, v...)) }
func Panic(v ...any)                 { stop(fmt.Sprint(v...)) }
func Panicln(v ...any)               { stop(fmt.Sprintln(v...)) }
func Fatalf(format string, v ...any) { exit(fmt.Sprintf(format, v...)) }
func Fatal(v ...any)                 { exit(fmt.Sprint(v...)) }
func Fatalln(v ...any)               { exit(fmt.Sprintln(v...)) }
func Output(calldepth int, s string) error {
	out(s)
	return nil
}

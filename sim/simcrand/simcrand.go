// Package simcrand replaces crypto/rand in the instrumented copy of the bloom
// filter dependency: keys derive from the run's tape so that the bytes of
// bloom.bf.gz replay exactly.
package simcrand

import (
	crand "crypto/rand"
	"io"
	"math/big"

	"verifsim/simrt"
)

type reader struct{}

func (reader) Read(p []byte) (int, error) {
	w := simrt.W()
	if w == nil {
		return crand.Read(p)
	}
	for i := range p {
		p[i] = byte(w.Tape.Intn(256, "crand"))
	}
	return len(p), nil
}

var Reader io.Reader = reader{}

func Read(b []byte) (int, error) { return Reader.Read(b) }

func Int(r io.Reader, max *big.Int) (*big.Int, error) { return crand.Int(r, max) }

func Text() string { return crand.Text() }

// Package simcrand replaces crypto/rand in the instrumented copy of the bloom
// filter dependency: keys derive from the run's tape so that the bytes of
// bloom.bf.gz replay exactly.
package simcrand

import (
	crand "crypto/rand"
	"io"
	"math/big"

	"verifsim/simrt"
)

type reader struct{}

func (reader) Read(p []byte) (int, error) {
	w := simrt.W()
	if w == nil {
		return crand.Read(p)
	}
	// one tape draw plus a per-world counter seed a local generator, so that even an
	// all-zero (minimised) tape yields distinct values on successive calls
	x := uint64(w.Tape.Intn(1<<30, "crand"))<<20 + w.NextCounter("crand")*0x9E3779B97F4A7C15
	for i := range p {
		x += 0x9E3779B97F4A7C15
		z := x
		z = (z ^ (z >> 30)) * 0xBF58476D1CE4E5B9
		z = (z ^ (z >> 27)) * 0x94D049BB133111EB
		z ^= z >> 31
		p[i] = byte(z >> 24)
	}
	return len(p), nil
}

var Reader io.Reader = reader{}

func Read(b []byte) (int, error) { return Reader.Read(b) }

func Int(r io.Reader, max *big.Int) (*big.Int, error) { return crand.Int(r, max) }

func Text() string { return crand.Text() }

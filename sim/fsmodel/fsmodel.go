// Package fsmodel is a small in-memory model of a directory tree that replays
// the mutating events of a simulated run. Applying events 1..k to the empty
// tree gives the crash image a process killed after system call k leaves
// behind (kill -9 model: every completed system call is retained).
package fsmodel

import (
	"bytes"
	"crypto/sha256"
	"encoding/hex"
	"fmt"
	"os"
	"path/filepath"
	"sort"
	"strings"

	"verifsim/simrt"
)

type node struct {
	dir  bool
	data []byte
}

// FS maps relative slash paths to nodes. The root "." is implicit.
type FS struct {
	n map[string]*node
}

func New() *FS { return &FS{n: map[string]*node{}} }

func (f *FS) Clone() *FS {
	c := New()
	for k, v := range f.n {
		nn := &node{dir: v.dir}
		if !v.dir {
			nn.data = append([]byte(nil), v.data...)
		}
		c.n[k] = nn
	}
	return c
}

func (f *FS) parentOK(p string) bool {
	d := filepath.Dir(p)
	if d == "." {
		return true
	}
	n, ok := f.n[d]
	return ok && n.dir
}

// Apply replays one event. Non-mutating events are ignored.
func (f *FS) Apply(e simrt.Event) error {
	switch e.Kind {
	case simrt.EvCreate:
		if !f.parentOK(e.Path) {
			return fmt.Errorf("create %s: parent missing", e.Path)
		}
		if _, ok := f.n[e.Path]; ok {
			return fmt.Errorf("create %s: exists", e.Path)
		}
		f.n[e.Path] = &node{}
	case simrt.EvWrite:
		n, ok := f.n[e.Path]
		if !ok || n.dir {
			return fmt.Errorf("write %s: no such file", e.Path)
		}
		end := int(e.Off) + len(e.Data)
		if end > len(n.data) {
			n.data = append(n.data, make([]byte, end-len(n.data))...)
		}
		copy(n.data[e.Off:], e.Data)
	case simrt.EvTruncate:
		n, ok := f.n[e.Path]
		if !ok || n.dir {
			return fmt.Errorf("truncate %s: no such file", e.Path)
		}
		if int(e.N) <= len(n.data) {
			n.data = n.data[:e.N]
		} else {
			n.data = append(n.data, make([]byte, int(e.N)-len(n.data))...)
		}
	case simrt.EvMkdir:
		if !f.parentOK(e.Path) {
			return fmt.Errorf("mkdir %s: parent missing", e.Path)
		}
		if _, ok := f.n[e.Path]; ok {
			return fmt.Errorf("mkdir %s: exists", e.Path)
		}
		f.n[e.Path] = &node{dir: true}
	case simrt.EvUnlink:
		n, ok := f.n[e.Path]
		if !ok || n.dir {
			return fmt.Errorf("unlink %s: no such file", e.Path)
		}
		delete(f.n, e.Path)
	case simrt.EvRmdir:
		n, ok := f.n[e.Path]
		if !ok || !n.dir {
			return fmt.Errorf("rmdir %s: no such dir", e.Path)
		}
		pre := e.Path + "/"
		for k := range f.n {
			if strings.HasPrefix(k, pre) {
				return fmt.Errorf("rmdir %s: not empty (%s)", e.Path, k)
			}
		}
		delete(f.n, e.Path)
	case simrt.EvRename:
		n, ok := f.n[e.Path]
		if !ok {
			return fmt.Errorf("rename %s: no such entry", e.Path)
		}
		if t, ok := f.n[e.Path2]; ok {
			if t.dir {
				pre := e.Path2 + "/"
				for k := range f.n {
					if strings.HasPrefix(k, pre) {
						return fmt.Errorf("rename onto non-empty dir %s", e.Path2)
					}
				}
			}
			delete(f.n, e.Path2)
		}
		moves := map[string]string{e.Path: e.Path2}
		if n.dir {
			pre := e.Path + "/"
			for k := range f.n {
				if strings.HasPrefix(k, pre) {
					moves[k] = e.Path2 + "/" + k[len(pre):]
				}
			}
		}
		moved := map[string]*node{}
		for from, to := range moves {
			moved[to] = f.n[from]
			delete(f.n, from)
		}
		for to, nn := range moved {
			f.n[to] = nn
		}
	}
	return nil
}

// Paths returns all entries sorted.
func (f *FS) Paths() []string {
	out := make([]string, 0, len(f.n))
	for k := range f.n {
		out = append(out, k)
	}
	sort.Strings(out)
	return out
}

func (f *FS) IsDir(p string) bool  { n, ok := f.n[p]; return ok && n.dir }
func (f *FS) Exists(p string) bool { _, ok := f.n[p]; return ok }
func (f *FS) Data(p string) []byte {
	n, ok := f.n[p]
	if !ok {
		return nil
	}
	return n.data
}
func (f *FS) Size(p string) int {
	n, ok := f.n[p]
	if !ok {
		return -1
	}
	return len(n.data)
}

// Children returns the direct children names of directory p ("." for the root).
func (f *FS) Children(p string) []string {
	var out []string
	for k := range f.n {
		if filepath.Dir(k) == p {
			out = append(out, filepath.Base(k))
		}
	}
	sort.Strings(out)
	return out
}

// Hash is a digest of the whole image.
func (f *FS) Hash() string {
	h := sha256.New()
	for _, p := range f.Paths() {
		n := f.n[p]
		if n.dir {
			fmt.Fprintf(h, "D %s\n", p)
		} else {
			fmt.Fprintf(h, "F %s %d\n", p, len(n.data))
			h.Write(n.data)
		}
	}
	return hex.EncodeToString(h.Sum(nil)[:12])
}

// Materialize writes the image into dir (which must exist and be empty).
func (f *FS) Materialize(dir string) error {
	for _, p := range f.Paths() {
		n := f.n[p]
		full := filepath.Join(dir, p)
		if n.dir {
			if err := os.Mkdir(full, 0700); err != nil {
				return err
			}
		} else if err := os.WriteFile(full, n.data, 0600); err != nil {
			return err
		}
	}
	return nil
}

// FromDir reads a real directory into a model.
func FromDir(dir string) (*FS, error) {
	f := New()
	err := filepath.Walk(dir, func(p string, info os.FileInfo, err error) error {
		if err != nil {
			return err
		}
		rel, _ := filepath.Rel(dir, p)
		if rel == "." {
			return nil
		}
		if info.IsDir() {
			f.n[rel] = &node{dir: true}
			return nil
		}
		b, err := os.ReadFile(p)
		if err != nil {
			return err
		}
		f.n[rel] = &node{data: b}
		return nil
	})
	return f, err
}

// Diff describes the first difference between two images ("" if equal).
func Diff(a, b *FS) string {
	pa, pb := a.Paths(), b.Paths()
	seen := map[string]bool{}
	for _, p := range pa {
		seen[p] = true
		nb, ok := b.n[p]
		if !ok {
			return "only in first: " + p
		}
		na := a.n[p]
		if na.dir != nb.dir {
			return "type differs: " + p
		}
		if !na.dir && !bytes.Equal(na.data, nb.data) {
			return fmt.Sprintf("content differs: %s (%d vs %d bytes)", p, len(na.data), len(nb.data))
		}
	}
	for _, p := range pb {
		if !seen[p] {
			return "only in second: " + p
		}
	}
	return ""
}

// Package simfilepath replaces path/filepath in the instrumented copy.
// Everything is a pass-through; Walk/WalkDir are declared scheduling points.
package simfilepath

import (
	"io/fs"
	"path/filepath"

	"verifsim/simrt"
)

const (
	Separator     = filepath.Separator
	ListSeparator = filepath.ListSeparator
)

var (
	ErrBadPattern = filepath.ErrBadPattern
	SkipDir       = filepath.SkipDir
	SkipAll       = filepath.SkipAll
)

type WalkFunc = filepath.WalkFunc

func Abs(p string) (string, error)             { return filepath.Abs(p) }
func Base(p string) string                     { return filepath.Base(p) }
func Clean(p string) string                    { return filepath.Clean(p) }
func Dir(p string) string                      { return filepath.Dir(p) }
func EvalSymlinks(p string) (string, error)    { return filepath.EvalSymlinks(p) }
func Ext(p string) string                      { return filepath.Ext(p) }
func FromSlash(p string) string                { return filepath.FromSlash(p) }
func Glob(pattern string) ([]string, error)    { return filepath.Glob(pattern) }
func HasPrefix(p, prefix string) bool          { return filepath.HasPrefix(p, prefix) }
func IsAbs(p string) bool                      { return filepath.IsAbs(p) }
func IsLocal(p string) bool                    { return filepath.IsLocal(p) }
func Join(elem ...string) string               { return filepath.Join(elem...) }
func Match(pattern, name string) (bool, error) { return filepath.Match(pattern, name) }
func Rel(base, targ string) (string, error)    { return filepath.Rel(base, targ) }
func Split(p string) (string, string)          { return filepath.Split(p) }
func SplitList(p string) []string              { return filepath.SplitList(p) }
func ToSlash(p string) string                  { return filepath.ToSlash(p) }
func VolumeName(p string) string               { return filepath.VolumeName(p) }

func Walk(root string, fn WalkFunc) error {
	simrt.Yield("fs:walk")
	return filepath.Walk(root, fn)
}

func WalkDir(root string, fn fs.WalkDirFunc) error {
	simrt.Yield("fs:walk")
	return filepath.WalkDir(root, fn)
}

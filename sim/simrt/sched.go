package simrt

import (
	"bytes"
	"errors"
	"fmt"
	"runtime"
	"runtime/debug"
	"strconv"
	"testing/synctest"
	"time"
)

// LockState is the simulator's view of one mutex / RW mutex.
type LockState struct {
	Name    string
	writer  bool
	readers int
}

type task struct {
	id     int
	name   string
	class  int // index into SchedConfig.Weights
	gid    int64
	resume chan struct{}
	parked bool
	kind   string
	want   *LockState
	wantW  bool
	done   bool
	client bool
	killed bool
}

// Task classes for weighting.
const (
	ClassClient = iota
	ClassFlusher
	ClassCompactor
	ClassOther
	numClasses
)

// SchedConfig configures the seeded scheduler of one run.
type SchedConfig struct {
	Weights       [numClasses]int // relative weight of picking a task of each class (>=1)
	AdvanceWeight int             // relative weight of "advance the clock by Interval" when offered (0 = never)
	Interval      time.Duration   // how far one advance moves the fake clock
	MaxAdvances   int
	MaxSteps      int
}

type scheduler struct {
	cfg      SchedConfig
	tasks    []*task
	byGid    map[int64]*task
	steps    int
	advances int
	simTime  time.Duration
	pickHash uint64
	killed   bool
}

var (
	ErrDeadlock   = errors.New("deadlock: no task can make progress")
	ErrStepBudget = errors.New("step budget exceeded")
)

// EnableScheduler switches the world to scheduled mode. Must be called inside the synctest bubble.
func (w *World) EnableScheduler(cfg SchedConfig) {
	for i := range cfg.Weights {
		if cfg.Weights[i] <= 0 {
			cfg.Weights[i] = 1
		}
	}
	if cfg.MaxSteps == 0 {
		cfg.MaxSteps = 200000
	}
	w.sched = &scheduler{cfg: cfg, byGid: map[int64]*task{}}
}

func (w *World) Scheduled() bool { return w.sched != nil }

func goid() int64 {
	var buf [64]byte
	n := runtime.Stack(buf[:], false)
	// "goroutine 123 ["
	b := buf[:n]
	b = b[len("goroutine "):]
	i := bytes.IndexByte(b, ' ')
	id, _ := strconv.ParseInt(string(b[:i]), 10, 64)
	return id
}

func (w *World) currentTaskLocked() (int, string) {
	if w.sched == nil {
		return 0, ""
	}
	if t := w.sched.byGid[goid()]; t != nil {
		return t.id, t.name
	}
	return 0, ""
}

func (w *World) currentTaskIDLocked() int {
	id, _ := w.currentTaskLocked()
	return id
}

func classOf(name string, client bool) int {
	switch {
	case client:
		return ClassClient
	case bytes.Contains([]byte(name), []byte("flush")), bytes.Contains([]byte(name), []byte("Flush")):
		return ClassFlusher
	case bytes.Contains([]byte(name), []byte("ompaction")), bytes.Contains([]byte(name), []byte("ompact")):
		return ClassCompactor
	}
	return ClassOther
}

// Go is what an instrumented `go f(x)` statement calls.
func Go(name string, f func()) {
	w := W()
	if w == nil {
		go f()
		return
	}
	w.spawn(name, f, false)
}

// GoClient starts a harness client task.
func (w *World) GoClient(name string, f func()) {
	w.spawn(name, f, true)
}

func (w *World) spawn(name string, f func(), client bool) {
	if w.sched == nil {
		go func() {
			defer w.recoverTask(nil)
			f()
		}()
		return
	}
	w.mu.Lock()
	s := w.sched
	t := &task{id: len(s.tasks) + 1, name: name, client: client, resume: make(chan struct{}), class: classOf(name, client)}
	s.tasks = append(s.tasks, t)
	w.mu.Unlock()
	go func() {
		gid := goid()
		w.mu.Lock()
		t.gid = gid
		s.byGid[gid] = t
		t.kind = "start"
		t.parked = true
		w.mu.Unlock()
		defer func() {
			w.mu.Lock()
			t.done = true
			delete(s.byGid, gid)
			w.mu.Unlock()
		}()
		defer w.recoverTask(t)
		<-t.resume
		if t.killed {
			panic(killSentinel{})
		}
		f()
	}()
}

type killSentinel struct{}

// recoverTask turns panics of a task into recorded process-stopped events.
func (w *World) recoverTask(t *task) {
	r := recover()
	if r == nil {
		return
	}
	switch v := r.(type) {
	case killSentinel:
		return
	case StopPanic:
		// already recorded by simlog
		_ = v
		return
	default:
		if w.Killed() {
			return
		}
		w.ProcessStopped(fmt.Sprintf("panic: %v\n%s", r, debug.Stack()))
	}
}

// Killed reports whether the run was torn down.
func (w *World) Killed() bool {
	w.mu.Lock()
	defer w.mu.Unlock()
	return w.sched != nil && w.sched.killed
}

// Yield parks the calling task until the scheduler releases it. No-op in direct
// mode or when called from a goroutine that is not a task.
func Yield(kind string) {
	w := W()
	if w == nil || w.sched == nil {
		return
	}
	w.yield(kind, nil, false)
}

func (w *World) yield(kind string, ls *LockState, write bool) bool {
	s := w.sched
	gid := goid()
	w.mu.Lock()
	t := s.byGid[gid]
	if t == nil {
		w.mu.Unlock()
		return false
	}
	if s.killed {
		w.mu.Unlock()
		panic(killSentinel{})
	}
	t.kind = kind
	t.want = ls
	t.wantW = write
	t.parked = true
	w.mu.Unlock()
	<-t.resume
	if t.killed {
		panic(killSentinel{})
	}
	return true
}

// LockAcquire is called by simsync before taking the real lock.
func LockAcquire(ls *LockState, write bool) {
	w := W()
	if w == nil || w.sched == nil {
		return
	}
	if w.yield("lock:"+ls.Name, ls, write) {
		return // the scheduler granted it and updated ls
	}
	// not a task (root goroutine running a single-threaded phase)
	w.mu.Lock()
	defer w.mu.Unlock()
	if !grantable(ls, write) {
		panic("simrt: non-task goroutine would block on " + ls.Name)
	}
	grant(ls, write)
}

// LockRelease is called by simsync after releasing the real lock.
func LockRelease(ls *LockState, write bool) {
	w := W()
	if w == nil || w.sched == nil {
		return
	}
	w.mu.Lock()
	defer w.mu.Unlock()
	if write {
		ls.writer = false
	} else {
		ls.readers--
	}
}

func grantable(ls *LockState, write bool) bool {
	if ls == nil {
		return true
	}
	if write {
		return !ls.writer && ls.readers == 0
	}
	return !ls.writer
}

func grant(ls *LockState, write bool) {
	if write {
		ls.writer = true
	} else {
		ls.readers++
	}
}

// RunResult summarises a scheduled run.
type RunResult struct {
	Steps    int
	Advances int
	SimTime  time.Duration
	PickHash uint64
	Tasks    int
	WaitFor  []string // on deadlock / budget: what each live task waits for
}

// RunScheduler drives the tasks until every client task has finished.
// Must be called from the root goroutine of the bubble.
func (w *World) RunScheduler() (RunResult, error) {
	s := w.sched
	for {
		synctest.Wait()
		w.mu.Lock()
		var elig []*task
		clientsLeft := 0
		for _, t := range s.tasks {
			if t.done {
				continue
			}
			if t.client {
				clientsLeft++
			}
			if t.parked && grantable(t.want, t.wantW) {
				elig = append(elig, t)
			}
		}
		stopped := len(w.Stopped) > 0
		w.mu.Unlock()
		res := RunResult{Steps: s.steps, Advances: s.advances, SimTime: s.simTime, PickHash: s.pickHash, Tasks: len(s.tasks)}
		if clientsLeft == 0 {
			res.WaitFor = w.waitFor() // tasks that outlive the clients (e.g. after Close): a leak for the harness to judge
			return res, nil
		}
		if stopped {
			res.WaitFor = w.waitFor()
			return res, nil // the harness looks at w.Stopped
		}
		canAdvance := s.cfg.AdvanceWeight > 0 && s.cfg.Interval > 0 && s.advances < s.cfg.MaxAdvances
		total := 0
		for _, t := range elig {
			total += s.cfg.Weights[t.class]
		}
		if canAdvance {
			total += s.cfg.AdvanceWeight
		}
		if total == 0 {
			res.WaitFor = w.waitFor()
			return res, ErrDeadlock
		}
		if s.steps >= s.cfg.MaxSteps {
			res.WaitFor = w.waitFor()
			return res, ErrStepBudget
		}
		v := w.Tape.Intn(total, "sched")
		var pick *task
		for _, t := range elig {
			wgt := s.cfg.Weights[t.class]
			if v < wgt {
				pick = t
				break
			}
			v -= wgt
		}
		s.steps++
		if pick == nil {
			// advance the clock
			s.advances++
			s.simTime += s.cfg.Interval
			s.pickHash = s.pickHash*1099511628211 + 0xff51afd7ed558ccd
			time.Sleep(s.cfg.Interval)
			continue
		}
		w.mu.Lock()
		if pick.want != nil {
			grant(pick.want, pick.wantW)
		}
		pick.parked = false
		s.pickHash = (s.pickHash ^ uint64(pick.id)) * 1099511628211
		s.pickHash = (s.pickHash ^ hashStr(pick.kind)) * 1099511628211
		w.mu.Unlock()
		pick.resume <- struct{}{}
	}
}

func hashStr(s string) uint64 {
	h := uint64(14695981039346656037)
	for i := 0; i < len(s); i++ {
		h = (h ^ uint64(s[i])) * 1099511628211
	}
	return h
}

func (w *World) waitFor() []string {
	w.mu.Lock()
	defer w.mu.Unlock()
	var out []string
	for _, t := range w.sched.tasks {
		if t.done {
			continue
		}
		st := "running-or-blocked-natively"
		if t.parked {
			st = "parked at " + t.kind
			if t.want != nil && !grantable(t.want, t.wantW) {
				st += fmt.Sprintf(" (blocked: writer=%v readers=%d)", t.want.writer, t.want.readers)
			}
		}
		out = append(out, fmt.Sprintf("task %d %s: %s", t.id, t.name, st))
	}
	return out
}

// KillTasks tears the run down: every parked task is released with a kill
// sentinel panic; disk operations fail from now on. Tasks blocked natively in
// the code under test stay blocked (the bubble then ends with a deadlock panic
// that the harness recovers).
func (w *World) KillTasks() {
	if w.sched == nil {
		return
	}
	w.mu.Lock()
	w.sched.killed = true
	var parked []*task
	for _, t := range w.sched.tasks {
		if !t.done && t.parked {
			t.killed = true
			t.parked = false
			parked = append(parked, t)
		}
	}
	w.mu.Unlock()
	for _, t := range parked {
		close(t.resume)
	}
}

package simrt

import (
	"bytes"
	"errors"
	"fmt"
	"runtime"
	"runtime/debug"
	"strconv"
	"testing/synctest"
	"time"
)

// The scheduler's own state lives in fixed arrays that are touched only from
// //go:norace functions, and its own synchronisation (mutex, resume channels,
// synctest.Wait) happens under raceDisable(): in a race-detector build the
// detector then sees exactly the synchronisation of the code under test, on a
// serial and replayable schedule.

// LockState is the simulator's view of one mutex / RW mutex.
type LockState struct {
	Name    string
	writer  bool
	readers int
}

const maxTasks = 96

type task struct {
	used   bool
	id     int
	name   string
	class  int // index into SchedConfig.Weights
	gid    int64
	resume chan struct{}
	parked bool
	kind   string
	want   *LockState
	wantW  bool
	done   bool
	client bool
	killed bool
}

// Task classes for weighting.
const (
	ClassClient = iota
	ClassFlusher
	ClassCompactor
	ClassOther
	numClasses
)

// SchedConfig configures the seeded scheduler of one run.
type SchedConfig struct {
	Weights       [numClasses]int // relative weight of picking a task of each class (>=1)
	AdvanceWeight int             // relative weight of "advance the clock by Interval" when offered (0 = never)
	Interval      time.Duration   // how far one advance moves the fake clock
	MaxAdvances   int
	MaxSteps      int
	// YieldOnUnlock makes every lock release a scheduling point too: another task may run between the release and
	// whatever the releasing task does next with what it read under the lock
	YieldOnUnlock bool
}

type scheduler struct {
	cfg      SchedConfig
	tasks    [maxTasks]task
	n        int
	steps    int
	advances int
	simTime  time.Duration
	pickHash uint64
	killed   bool
}

var (
	ErrDeadlock   = errors.New("deadlock: no task can make progress")
	ErrStepBudget = errors.New("step budget exceeded")
)

// EnableScheduler switches the world to scheduled mode. Must be called inside the synctest bubble.
func (w *World) EnableScheduler(cfg SchedConfig) {
	for i := range cfg.Weights {
		if cfg.Weights[i] <= 0 {
			cfg.Weights[i] = 1
		}
	}
	if cfg.MaxSteps == 0 {
		cfg.MaxSteps = 2000000
	}
	w.sched = &scheduler{cfg: cfg}
}

func (w *World) Scheduled() bool { return w.sched != nil }

func goid() int64 {
	var buf [64]byte
	n := runtime.Stack(buf[:], false)
	// "goroutine 123 ["
	b := buf[:n]
	b = b[len("goroutine "):]
	i := bytes.IndexByte(b, ' ')
	id, _ := strconv.ParseInt(string(b[:i]), 10, 64)
	return id
}

//go:norace
func (s *scheduler) byGid(gid int64) *task {
	for i := 0; i < s.n; i++ {
		t := &s.tasks[i]
		if t.used && !t.done && t.gid == gid {
			return t
		}
	}
	return nil
}

//go:norace
func (w *World) currentTaskLocked() (int, string) {
	if w.sched == nil {
		return 0, ""
	}
	if t := w.sched.byGid(goid()); t != nil {
		return t.id, t.name
	}
	return 0, ""
}

func classOf(name string, client bool) int {
	switch {
	case client:
		return ClassClient
	case bytes.Contains([]byte(name), []byte("flush")), bytes.Contains([]byte(name), []byte("Flush")):
		return ClassFlusher
	case bytes.Contains([]byte(name), []byte("ompaction")), bytes.Contains([]byte(name), []byte("ompact")):
		return ClassCompactor
	}
	return ClassOther
}

// Go is what an instrumented `go f(x)` statement calls.
func Go(name string, f func()) {
	w := W()
	if w == nil {
		go f()
		return
	}
	w.spawn(name, f, false)
}

// GoClient starts a harness client task.
func (w *World) GoClient(name string, f func()) {
	w.spawn(name, f, true)
}

//go:norace
func (w *World) newTask(name string, client bool) *task {
	w.lock()
	defer w.unlock()
	s := w.sched
	if s.n >= maxTasks {
		panic("simrt: too many tasks")
	}
	t := &s.tasks[s.n]
	s.n++
	*t = task{used: true, id: s.n, name: name, client: client, class: classOf(name, client)}
	return t
}

//go:norace
func (w *World) taskStart(t *task, gid int64) {
	w.lock()
	t.gid = gid
	t.kind = "start"
	t.parked = true
	w.unlock()
	raceDisable()
	<-t.resume
	raceEnable()
}

//go:norace
func (w *World) taskDone(t *task) {
	w.lock()
	t.done = true
	w.unlock()
}

//go:norace
func (t *task) isKilled() bool { return t.killed }

//go:norace
func (t *task) makeChan() {
	raceDisable()
	t.resume = make(chan struct{})
	raceEnable()
}

func (w *World) spawn(name string, f func(), client bool) {
	if w.sched == nil {
		go func() {
			defer w.recoverTask()
			f()
		}()
		return
	}
	t := w.newTask(name, client)
	t.makeChan()
	// the go statement itself stays visible to the race detector: parent-to-child is a genuine happens-before edge
	go func() {
		defer w.taskDone(t)
		defer w.recoverTask()
		w.taskStart(t, goid())
		if t.isKilled() {
			panic(killSentinel{})
		}
		f()
	}()
}

type killSentinel struct{}

// recoverTask turns panics of a task into recorded process-stopped events.
func (w *World) recoverTask() {
	r := recover()
	if r == nil {
		return
	}
	switch sp := r.(type) {
	case killSentinel:
		return
	case StopPanic:
		// log.Panicf / log.Fatalf of the code under test has unwound its goroutine: the process is gone now
		if !w.Killed() && !w.stoppedWith(sp.Msg) {
			w.ProcessStopped(sp.Msg)
		}
		return
	default:
		if w.Killed() {
			return
		}
		w.ProcessStopped(fmt.Sprintf("panic: %v\n%s", r, debug.Stack()))
	}
}

// Killed reports whether the run was torn down.
//
//go:norace
func (w *World) Killed() bool {
	return w.sched != nil && w.sched.killed
}

// Yield parks the calling task until the scheduler releases it. No-op in direct
// mode or when called from a goroutine that is not a task.
func Yield(kind string) {
	w := W()
	if w == nil || w.sched == nil {
		return
	}
	w.yield(kind, nil, false)
}

//go:norace
func (w *World) yield(kind string, ls *LockState, write bool) bool {
	s := w.sched
	gid := goid()
	w.lock()
	t := s.byGid(gid)
	if t == nil {
		w.unlock()
		return false
	}
	if s.killed {
		w.unlock()
		panic(killSentinel{})
	}
	t.kind = kind
	t.want = ls
	t.wantW = write
	t.parked = true
	w.unlock()
	raceDisable()
	<-t.resume
	raceEnable()
	if t.killed {
		panic(killSentinel{})
	}
	return true
}

// LockAcquire is called by simsync before taking the real lock.
//
//go:norace
func LockAcquire(ls *LockState, write bool) {
	w := W()
	if w == nil || w.sched == nil {
		return
	}
	if w.yield("lock:"+ls.Name, ls, write) {
		return // the scheduler granted it and updated ls
	}
	// not a task (root goroutine running a single-threaded phase)
	w.lock()
	defer w.unlock()
	if !grantable(ls, write) {
		panic("simrt: non-task goroutine would block on " + ls.Name)
	}
	grant(ls, write)
}

// LockRelease is called by simsync after releasing the real lock.
//
//go:norace
func LockRelease(ls *LockState, write bool) {
	w := W()
	if w == nil || w.sched == nil {
		return
	}
	w.lock()
	if write {
		ls.writer = false
	} else {
		ls.readers--
	}
	after := w.sched.cfg.YieldOnUnlock && !w.sched.killed
	w.unlock()
	if after {
		w.yieldIfLive("unlock:" + ls.Name)
	}
}

// AfterRecv is called by instrumented code right after a channel receive completed: with extra scheduling points on,
// the receiver parks before it touches what it was handed.
//
//go:norace
func AfterRecv() {
	w := W()
	if w == nil || w.sched == nil {
		return
	}
	w.lock()
	on := w.sched.cfg.YieldOnUnlock && !w.sched.killed
	w.unlock()
	if on {
		w.yieldIfLive("recv")
	}
}

// yieldIfLive is a scheduling point that never raises the kill sentinel itself (releases run in deferred calls,
// also while a killed task unwinds).
//
//go:norace
func (w *World) yieldIfLive(kind string) {
	s := w.sched
	gid := goid()
	w.lock()
	t := s.byGid(gid)
	if t == nil || s.killed || t.killed {
		w.unlock()
		return
	}
	t.kind = kind
	t.want = nil
	t.wantW = false
	t.parked = true
	w.unlock()
	raceDisable()
	<-t.resume
	raceEnable()
}

//go:norace
func grantable(ls *LockState, write bool) bool {
	if ls == nil {
		return true
	}
	if write {
		return !ls.writer && ls.readers == 0
	}
	return !ls.writer
}

//go:norace
func grant(ls *LockState, write bool) {
	if write {
		ls.writer = true
	} else {
		ls.readers++
	}
}

// RunResult summarises a scheduled run.
type RunResult struct {
	Steps    int
	Advances int
	SimTime  time.Duration
	PickHash uint64
	Tasks    int
	WaitFor  []string // on deadlock / budget / leak: what each live task waits for
}

// RunScheduler drives the tasks until every client task has finished.
// Must be called from the root goroutine of the bubble.
//
//go:norace
func (w *World) RunScheduler() (RunResult, error) {
	// the root never takes part in the program's own synchronisation: keep all of its
	// synchronisation events (synctest.Wait, resume channels) invisible to the race detector
	raceDisable()
	defer raceEnable()
	s := w.sched
	var elig [maxTasks]*task
	for {
		synctest.Wait()
		w.lock()
		ne := 0
		clientsLeft := 0
		for i := 0; i < s.n; i++ {
			t := &s.tasks[i]
			if t.done {
				continue
			}
			if t.client {
				clientsLeft++
			}
			if t.parked && grantable(t.want, t.wantW) {
				elig[ne] = t
				ne++
			}
		}
		stopped := w.nStopped > 0
		w.unlock()
		res := RunResult{Steps: s.steps, Advances: s.advances, SimTime: s.simTime, PickHash: s.pickHash, Tasks: s.n}
		if clientsLeft == 0 {
			res.WaitFor = w.waitFor() // tasks that outlive the clients (e.g. after Close): a leak for the harness to judge
			return res, nil
		}
		if stopped {
			res.WaitFor = w.waitFor()
			return res, nil // the harness looks at the stopped messages
		}
		canAdvance := s.cfg.AdvanceWeight > 0 && s.cfg.Interval > 0 && s.advances < s.cfg.MaxAdvances
		total := 0
		for i := 0; i < ne; i++ {
			total += s.cfg.Weights[elig[i].class]
		}
		if canAdvance {
			total += s.cfg.AdvanceWeight
		}
		if total == 0 {
			res.WaitFor = w.waitFor()
			return res, ErrDeadlock
		}
		if s.steps >= s.cfg.MaxSteps {
			res.WaitFor = w.waitFor()
			return res, ErrStepBudget
		}
		v := w.Tape.Intn(total, "sched")
		var pick *task
		for i := 0; i < ne; i++ {
			wgt := s.cfg.Weights[elig[i].class]
			if v < wgt {
				pick = elig[i]
				break
			}
			v -= wgt
		}
		s.steps++
		if pick == nil {
			// advance the clock
			s.advances++
			s.simTime += s.cfg.Interval
			s.pickHash = s.pickHash*1099511628211 + 0xff51afd7ed558ccd
			time.Sleep(s.cfg.Interval)
			continue
		}
		w.lock()
		if pick.want != nil {
			grant(pick.want, pick.wantW)
		}
		pick.parked = false
		s.pickHash = (s.pickHash ^ uint64(pick.id)) * 1099511628211
		s.pickHash = (s.pickHash ^ hashStr(pick.kind)) * 1099511628211
		w.unlock()
		pick.resume <- struct{}{}
	}
}

func hashStr(s string) uint64 {
	h := uint64(14695981039346656037)
	for i := 0; i < len(s); i++ {
		h = (h ^ uint64(s[i])) * 1099511628211
	}
	return h
}

//go:norace
func (w *World) waitFor() []string {
	w.lock()
	defer w.unlock()
	var out []string
	s := w.sched
	for i := 0; i < s.n; i++ {
		t := &s.tasks[i]
		if t.done {
			continue
		}
		st := "running-or-blocked-natively"
		if t.parked {
			st = "parked at " + t.kind
			if t.want != nil && !grantable(t.want, t.wantW) {
				st += fmt.Sprintf(" (blocked: writer=%v readers=%d)", t.want.writer, t.want.readers)
			}
		}
		out = append(out, fmt.Sprintf("task %d %s: %s", t.id, t.name, st))
	}
	return out
}

// KillTasks tears the run down: every parked task is released with a kill
// sentinel panic. Tasks blocked natively in the code under test stay blocked
// (the bubble then ends with a deadlock panic that the harness recovers).
//
//go:norace
func (w *World) KillTasks() {
	if w.sched == nil {
		return
	}
	raceDisable()
	defer raceEnable()
	w.lock()
	s := w.sched
	s.killed = true
	var parked [maxTasks]*task
	np := 0
	for i := 0; i < s.n; i++ {
		t := &s.tasks[i]
		if !t.done && t.parked {
			t.killed = true
			t.parked = false
			parked[np] = t
			np++
		}
	}
	w.unlock()
	for i := 0; i < np; i++ {
		close(parked[i].resume)
	}
}

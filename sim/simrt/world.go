// Package simrt is the runtime of the deterministic simulator: one World per
// simulated run holds the event trace, the choice tape, the fault plan, the
// resource ledger and (in scheduled mode) the task scheduler.
package simrt

import (
	"fmt"
	"path/filepath"
	"sort"
	"strings"
	"sync"
	"sync/atomic"
)

// Event is one recorded happening of a run. File system events carry enough to
// re-apply them to an empty directory (see package fsmodel).
type Event struct {
	Seq   int    `json:"seq"`
	Task  int    `json:"task"`
	TName string `json:"tname,omitempty"`
	Kind  string `json:"kind"`
	Path  string `json:"path,omitempty"`
	Path2 string `json:"path2,omitempty"`
	Off   int64  `json:"off,omitempty"`
	Data  []byte `json:"data,omitempty"`
	N     int64  `json:"n,omitempty"`
	Note  string `json:"note,omitempty"`
}

// Kinds of file system events that change the directory image.
const (
	EvCreate   = "create"   // Path: a new empty regular file came into existence
	EvWrite    = "write"    // Path, Off, Data
	EvTruncate = "truncate" // Path, N = new size
	EvMkdir    = "mkdir"    // Path
	EvUnlink   = "unlink"   // Path
	EvRmdir    = "rmdir"    // Path
	EvRename   = "rename"   // Path -> Path2
	// Kinds that do not change the image.
	EvFsync  = "fsync"
	EvClose  = "close"
	EvOpen   = "open"
	EvFault  = "fault"  // Note = what was injected
	EvInvoke = "invoke" // harness: client operation starts (N = op id)
	EvReturn = "return" // harness: client operation returned (N = op id)
	EvLog    = "log"
	EvStop   = "stop" // process stopped (log.Panicf / log.Fatalf / panic in a task)
	EvMark   = "mark"
)

// Mutating reports whether an event of this kind changes the directory image.
func Mutating(kind string) bool {
	switch kind {
	case EvCreate, EvWrite, EvTruncate, EvMkdir, EvUnlink, EvRmdir, EvRename:
		return true
	}
	return false
}

// FaultSpec describes one injected failure.
type FaultSpec struct {
	Errno string `json:"errno"` // EIO, ENOSPC, EMFILE
	Short int    `json:"short"` // for writes: number of bytes that still reach the file (0 = none)
}

// OpPoint identifies a fault-eligible operation.
type OpPoint struct {
	Kind string // write, fsync, create, open, rename, unlink, rmdir, mkdir, truncate, read
	Rel  string
	Task int
	Name string // task name
}

// World is the state of one simulated run.
type World struct {
	Root string // absolute, cleaned path of the scratch directory all recorded paths are relative to

	mu     sync.Mutex
	trace  []Event
	seq    int
	Record bool // record events (default true)
	// Lite: keep no trace, ledger or logs - only sequence numbers. Forced in race-detector builds, where every piece
	// of simulator state that tasks share would otherwise have to be hidden from the detector.
	Lite bool

	Tape *Tape

	// fault injection
	FaultFilter func(p OpPoint) bool // which operations are eligible (nil = none)
	FaultAt     map[int]FaultSpec    // eligible-op index -> fault
	faultIdx    int
	FaultsFired map[string]int
	EligibleOps int

	// read chunking: when > 0, Read calls on tracked files return at most a tape-chosen 1..ReadChunkMax bytes
	ReadChunkMax int
	// permute the unlink order inside RemoveAll
	PermuteUnlink bool

	// resource ledger
	handles                 map[uint64]string // handle id -> rel path
	nextH                   uint64
	mappings                map[uint64]string
	closers                 map[uint64]func()
	MaxHandles, MaxMappings int
	// Alias is a second spelling of Root (a symbolic link to it): paths below it belong to this world too
	Alias string
	// FDLimit > 0 models the process's descriptor limit (ulimit -n): an open beyond it fails with EMFILE
	FDLimit                int
	OpensTotal, MmapsTotal int

	// logs and process stop
	Logs       []string
	stoppedArr [8]string // messages of process-stopped events
	nStopped   int

	// Phase is set by harnesses (e.g. "open" while the database is being opened) for fault filters to consult
	Phase string

	Probes      map[string]int
	liteCounter uint64
	counters    map[string]uint64

	sched *scheduler
}

// lock / unlock take the simulator's own mutex invisibly for the race detector (see race_on.go).
func (w *World) lock() {
	raceDisable()
	w.mu.Lock()
}

func (w *World) unlock() {
	w.mu.Unlock()
	raceEnable()
}

var cur atomic.Pointer[World]

// W returns the active world or nil (pass-through mode).
func W() *World { return cur.Load() }

// NewWorld creates a world rooted at dir and makes it the active one.
func NewWorld(root string, tape *Tape) *World {
	abs, err := filepath.Abs(root)
	if err != nil {
		panic(err)
	}
	w := &World{
		Root:        filepath.Clean(abs),
		Record:      true,
		Lite:        RaceBuild,
		Tape:        tape,
		FaultsFired: map[string]int{},
		handles:     map[uint64]string{},
		mappings:    map[uint64]string{},
		closers:     map[uint64]func(){},
		Probes:      map[string]int{},
	}
	cur.Store(w)
	return w
}

// Deactivate makes pass-through mode current again.
func Deactivate() { cur.Store(nil) }

// Activate makes w current.
func (w *World) Activate() { cur.Store(w) }

// Rel returns the path relative to the world root and whether it lies inside it.
func (w *World) Rel(p string) (string, bool) {
	abs := p
	if !filepath.IsAbs(abs) {
		a, err := filepath.Abs(abs)
		if err != nil {
			return "", false
		}
		abs = a
	}
	abs = filepath.Clean(abs)
	if abs == w.Root {
		return ".", true
	}
	if strings.HasPrefix(abs, w.Root+string(filepath.Separator)) {
		return abs[len(w.Root)+1:], true
	}
	if w.Alias != "" {
		if abs == w.Alias {
			return ".", true
		}
		if strings.HasPrefix(abs, w.Alias+string(filepath.Separator)) {
			return abs[len(w.Alias)+1:], true
		}
	}
	return "", false
}

// Emit appends an event to the trace and returns its sequence number.
//
//go:norace
func (w *World) Emit(e Event) int {
	if w.Lite {
		// only released tasks emit (every recording call site yields first), so this is serial
		w.seq++
		return w.seq
	}
	w.lock()
	defer w.unlock()
	w.seq++
	e.Seq = w.seq
	if e.Task == 0 {
		e.Task, e.TName = w.currentTaskLocked()
	}
	if w.Record {
		w.trace = append(w.trace, e)
	}
	return e.Seq
}

// Seq returns the sequence number of the last event.
//
//go:norace
func (w *World) Seq() int {
	if w.Lite {
		return w.seq
	}
	w.lock()
	defer w.unlock()
	return w.seq
}

// Trace returns the events recorded so far (shared slice; do not modify).
func (w *World) Trace() []Event {
	w.lock()
	defer w.unlock()
	return w.trace[:len(w.trace):len(w.trace)]
}

// ResetTrace drops recorded events (sequence numbers continue).
func (w *World) ResetTrace() {
	w.lock()
	defer w.unlock()
	w.trace = nil
}

// NextCounter returns 1, 2, 3, ... per name.
//
//go:norace
func (w *World) NextCounter(name string) uint64 {
	if w.Lite {
		w.liteCounter++
		return w.liteCounter
	}
	w.lock()
	defer w.unlock()
	if w.counters == nil {
		w.counters = map[string]uint64{}
	}
	w.counters[name]++
	return w.counters[name]
}

// Probe counts that a named situation was reached.
func (w *World) Probe(name string) {
	if w.Lite {
		return
	}
	w.lock()
	w.Probes[name]++
	w.unlock()
}

// CheckFault is called by the simulated disk before an eligible operation.
// It returns the fault to inject, if any.
func (w *World) CheckFault(kind, rel string) (FaultSpec, bool) {
	if w.FaultFilter == nil {
		return FaultSpec{}, false
	}
	w.lock()
	defer w.unlock()
	id, name := w.currentTaskLocked()
	if !w.FaultFilter(OpPoint{Kind: kind, Rel: rel, Task: id, Name: name}) {
		return FaultSpec{}, false
	}
	idx := w.faultIdx
	w.faultIdx++
	w.EligibleOps++
	if f, ok := w.FaultAt[idx]; ok {
		w.FaultsFired[kind+":"+f.Errno]++
		return f, true
	}
	return FaultSpec{}, false
}

// ---- resource ledger ----

func (w *World) HandleOpened(rel string, closer func()) uint64 {
	if w.Lite {
		return 0
	}
	w.lock()
	defer w.unlock()
	w.nextH++
	w.handles[w.nextH] = rel
	w.closers[w.nextH] = closer
	w.OpensTotal++
	if len(w.handles) > w.MaxHandles {
		w.MaxHandles = len(w.handles)
	}
	return w.nextH
}

func (w *World) HandleClosed(id uint64) {
	if w.Lite {
		return
	}
	w.lock()
	delete(w.handles, id)
	delete(w.closers, id)
	w.unlock()
}

// ReleaseAll force-closes every descriptor and mapping the run left open (the simulated process is dead).
// Nothing of the run may be used afterwards.
func (w *World) ReleaseAll() {
	w.lock()
	cl := w.closers
	w.closers = map[uint64]func(){}
	w.handles = map[uint64]string{}
	w.mappings = map[uint64]string{}
	w.unlock()
	for _, f := range cl {
		if f != nil {
			f()
		}
	}
}

func (w *World) MappingOpened(rel string, closer func()) uint64 {
	if w.Lite {
		return 0
	}
	w.lock()
	defer w.unlock()
	w.nextH++
	w.mappings[w.nextH] = rel
	w.closers[w.nextH] = closer
	w.MmapsTotal++
	if len(w.mappings) > w.MaxMappings {
		w.MaxMappings = len(w.mappings)
	}
	return w.nextH
}

func (w *World) MappingClosed(id uint64) {
	if w.Lite {
		return
	}
	w.lock()
	delete(w.mappings, id)
	delete(w.closers, id)
	w.unlock()
}

// HandleCount is the number of currently open tracked handles.
func (w *World) HandleCount() int {
	if w.Lite {
		return 0
	}
	w.lock()
	defer w.unlock()
	return len(w.handles)
}

// OpenHandles returns the relative paths of all currently open tracked handles, sorted.
func (w *World) OpenHandles() []string {
	w.lock()
	defer w.unlock()
	var out []string
	for _, p := range w.handles {
		out = append(out, p)
	}
	sort.Strings(out)
	return out
}

// OpenMappings returns the relative paths of all live tracked mappings, sorted.
func (w *World) OpenMappings() []string {
	w.lock()
	defer w.unlock()
	var out []string
	for _, p := range w.mappings {
		out = append(out, p)
	}
	sort.Strings(out)
	return out
}

// ---- logs / stop ----

func (w *World) AddLog(s string) {
	if w.Lite {
		return
	}
	w.lock()
	if len(w.Logs) < 4096 {
		w.Logs = append(w.Logs, s)
	}
	w.unlock()
}

// ProcessStopped records that the code under test asked for the process to die.
//
//go:norace
func (w *World) ProcessStopped(msg string) {
	w.Emit(Event{Kind: EvStop, Note: msg})
	w.lock()
	if w.nStopped < len(w.stoppedArr) {
		w.stoppedArr[w.nStopped] = msg
		w.nStopped++
	}
	w.unlock()
}

// stoppedWith tells whether a stop with this message is recorded already (log.Fatal records it before unwinding).
//
//go:norace
func (w *World) stoppedWith(msg string) bool {
	w.lock()
	defer w.unlock()
	for i := 0; i < w.nStopped; i++ {
		if w.stoppedArr[i] == msg {
			return true
		}
	}
	return false
}

//go:norace
func (w *World) StoppedMessages() []string {
	w.lock()
	defer w.unlock()
	var out []string
	for i := 0; i < w.nStopped; i++ {
		out = append(out, w.stoppedArr[i])
	}
	return out
}

//go:norace
func (w *World) stoppedCount() int { return w.nStopped }

// StopPanic is the sentinel panic value used to unwind a task after log.Panicf / log.Fatalf.
type StopPanic struct{ Msg string }

func (s StopPanic) Error() string { return "process stopped: " + s.Msg }

func (w *World) String() string { return fmt.Sprintf("world(%s, %d events)", w.Root, w.seq) }

//go:build !race

package simrt

const RaceBuild = false

func raceDisable() {}
func raceEnable()  {}

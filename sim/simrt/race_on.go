//go:build race

package simrt

import "runtime"

// RaceBuild reports whether the binary was built with the race detector.
const RaceBuild = true

// raceDisable / raceEnable hide the simulator's own synchronisation (scheduler channels, its mutex) from the
// race detector: the detector must only see the synchronisation of the code under test, otherwise the serial
// schedule would order every pair of accesses and hide every data race.
func raceDisable() { runtime.RaceDisable() }
func raceEnable()  { runtime.RaceEnable() }

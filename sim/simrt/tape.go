package simrt

import (
	"math/rand"
	"sync"
)

// Tape is the single source of run-time choices. In generate mode the values
// come from a PRNG and are recorded; in replay mode they come from the recorded
// list (values are reduced modulo n so that an edited tape is always usable; an
// exhausted tape yields 0, the "simplest" choice).
type Tape struct {
	mu         sync.Mutex
	rng        *rand.Rand
	replay     []int
	pos        int
	Rec        []int
	Labels     []string // parallel to Rec when KeepLabels
	KeepLabels bool
	Replaying  bool
}

func NewTape(seed int64) *Tape {
	return &Tape{rng: rand.New(rand.NewSource(seed))}
}

func ReplayTape(values []int) *Tape {
	return &Tape{replay: values, Replaying: true}
}

// Intn returns a value in [0,n). n <= 1 consumes nothing and returns 0.
func (t *Tape) Intn(n int, label string) int {
	if n <= 1 {
		return 0
	}
	t.mu.Lock()
	defer t.mu.Unlock()
	var v int
	if t.Replaying {
		if t.pos < len(t.replay) {
			v = t.replay[t.pos] % n
			if v < 0 {
				v = -v
			}
		}
		t.pos++
	} else {
		v = t.rng.Intn(n)
	}
	t.Rec = append(t.Rec, v)
	if t.KeepLabels {
		t.Labels = append(t.Labels, label)
	}
	return v
}

// Chance returns true with probability num/den.
func (t *Tape) Chance(num, den int, label string) bool {
	if num <= 0 {
		return false
	}
	if num >= den {
		return true
	}
	return t.Intn(den, label) < num
}

// Perm returns a permutation of 0..n-1 (identity when the tape is exhausted in replay).
func (t *Tape) Perm(n int, label string) []int {
	p := make([]int, n)
	for i := range p {
		p[i] = i
	}
	for i := n - 1; i > 0; i-- {
		j := i - t.Intn(i+1, label) // value 0 keeps position => identity for all-zero tape
		p[i], p[j] = p[j], p[i]
	}
	return p
}

package simrt

import "sync"

// Tape is the single source of run-time choices. In generate mode the values
// come from a PRNG (splitmix64, implemented here so that no instrumented
// library state is shared between tasks) and are recorded; in replay mode they
// come from the recorded list (values are reduced modulo n so that an edited
// tape is always usable; an exhausted tape yields 0, the "simplest" choice).
type Tape struct {
	mu         sync.Mutex
	state      uint64
	replay     []int
	pos        int
	Rec        []int
	Labels     []string // parallel to Rec when KeepLabels
	KeepLabels bool
	Replaying  bool
	NoRec      bool // do not record (race-detector runs)
}

func NewTape(seed int64) *Tape {
	return &Tape{state: uint64(seed)*0x9E3779B97F4A7C15 + 0x1234567}
}

func ReplayTape(values []int) *Tape {
	return &Tape{replay: values, Replaying: true}
}

//go:norace
func (t *Tape) next() uint64 {
	t.state += 0x9E3779B97F4A7C15
	z := t.state
	z = (z ^ (z >> 30)) * 0xBF58476D1CE4E5B9
	z = (z ^ (z >> 27)) * 0x94D049BB133111EB
	return z ^ (z >> 31)
}

// Intn returns a value in [0,n). n <= 1 consumes nothing and returns 0.
//
//go:norace
func (t *Tape) Intn(n int, label string) int {
	if n <= 1 {
		return 0
	}
	raceDisable()
	t.mu.Lock()
	var v int
	if t.Replaying {
		if t.pos < len(t.replay) {
			v = t.replay[t.pos] % n
			if v < 0 {
				v = -v
			}
		}
		t.pos++
	} else {
		v = int(t.next() % uint64(n))
	}
	if !t.NoRec {
		t.Rec = append(t.Rec, v)
		if t.KeepLabels {
			t.Labels = append(t.Labels, label)
		}
	}
	t.mu.Unlock()
	raceEnable()
	return v
}

// Chance returns true with probability num/den.
func (t *Tape) Chance(num, den int, label string) bool {
	if num <= 0 {
		return false
	}
	if num >= den {
		return true
	}
	return t.Intn(den, label) < num
}

// Perm returns a permutation of 0..n-1 (identity when the tape is exhausted in replay).
func (t *Tape) Perm(n int, label string) []int {
	p := make([]int, n)
	for i := range p {
		p[i] = i
	}
	for i := n - 1; i > 0; i-- {
		j := i - t.Intn(i+1, label) // value 0 keeps position => identity for all-zero tape
		p[i], p[j] = p[j], p[i]
	}
	return p
}

// Package simsync replaces package sync in the instrumented copy. Mutex and
// RWMutex become scheduler-aware: acquiring is a scheduling point and a task
// whose lock is not grantable is simply not eligible to run. Underneath the
// real lock is still taken (it cannot block once granted), so mutual exclusion
// and the race detector's happens-before edges are the genuine ones.
package simsync

import (
	"sync"

	"verifsim/simrt"
)

// WaitGroup is sync.WaitGroup whose Go method (Go 1.25) starts a scheduled task like a rewritten `go` statement does.
type WaitGroup struct{ sync.WaitGroup }

func (wg *WaitGroup) Go(f func()) {
	wg.Add(1)
	simrt.Go("WaitGroup.Go", func() {
		defer wg.Done()
		f()
	})
}

type (
	Once      = sync.Once
	Pool      = sync.Pool
	Map       = sync.Map
	Cond      = sync.Cond
	Locker    = sync.Locker
)

func NewCond(l Locker) *Cond { return sync.NewCond(l) }

func OnceFunc(f func()) func() { return sync.OnceFunc(f) }

type RWMutex struct {
	real sync.RWMutex
	st   simrt.LockState
}

func (m *RWMutex) Lock() {
	simrt.LockAcquire(&m.st, true)
	m.real.Lock()
}

func (m *RWMutex) Unlock() {
	m.real.Unlock()
	simrt.LockRelease(&m.st, true)
}

func (m *RWMutex) RLock() {
	simrt.LockAcquire(&m.st, false)
	m.real.RLock()
}

func (m *RWMutex) RUnlock() {
	m.real.RUnlock()
	simrt.LockRelease(&m.st, false)
}

func (m *RWMutex) TryLock() bool  { panic("simsync: TryLock not supported") }
func (m *RWMutex) TryRLock() bool { panic("simsync: TryRLock not supported") }

type rlocker RWMutex

func (r *rlocker) Lock()   { (*RWMutex)(r).RLock() }
func (r *rlocker) Unlock() { (*RWMutex)(r).RUnlock() }

func (m *RWMutex) RLocker() Locker { return (*rlocker)(m) }

type Mutex struct {
	real sync.Mutex
	st   simrt.LockState
}

func (m *Mutex) Lock() {
	simrt.LockAcquire(&m.st, true)
	m.real.Lock()
}

func (m *Mutex) Unlock() {
	m.real.Unlock()
	simrt.LockRelease(&m.st, true)
}

func (m *Mutex) TryLock() bool { panic("simsync: TryLock not supported") }

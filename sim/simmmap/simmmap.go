// Package simmmap replaces golang.org/x/exp/mmap in the instrumented copy:
// same API and semantics (minus the GC finalizer), opened through the
// simulated disk and counted in the resource ledger.
package simmmap

import (
	"errors"
	"fmt"
	"io"
	"syscall"

	"verifsim/simos"
	"verifsim/simrt"
)

type ReaderAt struct {
	data []byte
	w    *simrt.World
	id   uint64
	rel  string
}

func (r *ReaderAt) Close() error {
	if r.data == nil {
		return nil
	}
	if r.w != nil {
		r.w.MappingClosed(r.id)
		r.w.Emit(simrt.Event{Kind: "munmap", Path: r.rel})
		r.w = nil
	}
	if len(r.data) == 0 {
		r.data = nil
		return nil
	}
	data := r.data
	r.data = nil
	return syscall.Munmap(data)
}

func (r *ReaderAt) Len() int { return len(r.data) }

func (r *ReaderAt) At(i int) byte { return r.data[i] }

func (r *ReaderAt) ReadAt(p []byte, off int64) (int, error) {
	// reading a mapping interacts with whoever may unmap it (Close by another task): a scheduling point
	if r.w != nil {
		simrt.Yield("mmap:read")
	}
	if r.data == nil {
		return 0, errors.New("mmap: closed")
	}
	if off < 0 || int64(len(r.data)) < off {
		return 0, fmt.Errorf("mmap: invalid ReadAt offset %d", off)
	}
	n := copy(p, r.data[off:])
	if n < len(p) {
		return n, io.EOF
	}
	return n, nil
}

func Open(filename string) (*ReaderAt, error) {
	f, err := simos.Open(filename)
	if err != nil {
		return nil, err
	}
	defer f.Close()
	fi, err := f.Stat()
	if err != nil {
		return nil, err
	}
	r := &ReaderAt{}
	size := fi.Size()
	if size < 0 {
		return nil, fmt.Errorf("mmap: file %q has negative size", filename)
	}
	if size == 0 {
		r.data = make([]byte, 0)
	} else {
		data, err := syscall.Mmap(int(f.Fd()), 0, int(size), syscall.PROT_READ, syscall.MAP_SHARED)
		if err != nil {
			return nil, err
		}
		r.data = data
	}
	if w := simrt.W(); w != nil {
		if rel, ok := w.Rel(filename); ok {
			r.w = w
			r.rel = rel
			w.Emit(simrt.Event{Kind: "mmap", Path: rel})
			data := r.data
			r.id = w.MappingOpened(rel, func() {
				if len(data) > 0 {
					_ = syscall.Munmap(data)
				}
			})
		}
	}
	return r, nil
}

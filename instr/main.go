// Command instr produces the instrumented scratch copy of go-sstables (and of
// the bloom filter dependency) that the simulation harness is compiled against.
// It is purely syntactic: imports of os, path/filepath, sync, log,
// golang.org/x/exp/mmap, github.com/ncw/directio (and crypto/rand in the bloom
// filter) are redirected to the verifsim packages, and `go f(x)` statements
// become simrt.Go("f", func() { f(x) }).
package main

import (
	"flag"
	"fmt"
	"go/ast"
	"go/format"
	"go/parser"
	"go/token"
	"os"
	"path/filepath"
	"strconv"
	"strings"
)

var repoRewrites = map[string][2]string{
	"os":                      {"os", "verifsim/simos"},
	"path/filepath":           {"filepath", "verifsim/simfilepath"},
	"sync":                    {"sync", "verifsim/simsync"},
	"log":                     {"log", "verifsim/simlog"},
	"golang.org/x/exp/mmap":   {"mmap", "verifsim/simmmap"},
	"github.com/ncw/directio": {"directio", "verifsim/simdirectio"},
}

var bloomRewrites = map[string][2]string{
	"os":          {"os", "verifsim/simos"},
	"crypto/rand": {"rand", "verifsim/simcrand"},
}

var repoDirs = []string{"recordio", "sstables", "simpledb", "wal", "memstore", "skiplist", "pq"}

func main() {
	repo := flag.String("repo", "/repo", "source tree")
	out := flag.String("out", "", "output directory")
	bloom := flag.String("bloom", "", "bloom filter module source directory")
	extra := flag.String("extra", "", "directory with extra files to drop into packages (<pkgdir>__<name>.go)")
	flag.Parse()
	if *out == "" {
		fatal("need -out")
	}
	n := 0
	for _, d := range repoDirs {
		root := filepath.Join(*repo, d)
		err := filepath.Walk(root, func(p string, info os.FileInfo, err error) error {
			if err != nil {
				return err
			}
			base := filepath.Base(p)
			if info.IsDir() {
				if p != root && (strings.HasPrefix(base, "_") || strings.HasPrefix(base, ".") || base == "porcupine" || base == "testdata") {
					return filepath.SkipDir
				}
				return nil
			}
			if !strings.HasSuffix(base, ".go") || strings.HasSuffix(base, "_test.go") {
				return nil
			}
			rel, _ := filepath.Rel(*repo, p)
			dst := filepath.Join(*out, "repo", rel)
			if err := rewriteFile(p, dst, repoRewrites, true); err != nil {
				return fmt.Errorf("%s: %w", p, err)
			}
			n++
			return nil
		})
		if err != nil {
			fatal(err.Error())
		}
	}
	for _, f := range []string{"go.mod", "go.sum"} {
		b, err := os.ReadFile(filepath.Join(*repo, f))
		if err != nil {
			fatal(err.Error())
		}
		if err := os.WriteFile(filepath.Join(*out, "repo", f), b, 0644); err != nil {
			fatal(err.Error())
		}
	}
	if *bloom != "" {
		ents, err := os.ReadDir(*bloom)
		if err != nil {
			fatal(err.Error())
		}
		for _, e := range ents {
			name := e.Name()
			if e.IsDir() || !strings.HasSuffix(name, ".go") || strings.HasSuffix(name, "_test.go") {
				continue
			}
			if err := rewriteFile(filepath.Join(*bloom, name), filepath.Join(*out, "bloomfilter", name), bloomRewrites, false); err != nil {
				fatal(err.Error())
			}
			n++
		}
		mod := "module github.com/steakknife/bloomfilter\n\ngo 1.12\n\nrequire github.com/steakknife/hamming v0.0.0-20180906055917-c99c65617cd3\n"
		if err := os.WriteFile(filepath.Join(*out, "bloomfilter", "go.mod"), []byte(mod), 0644); err != nil {
			fatal(err.Error())
		}
	}
	if *extra != "" {
		ents, _ := os.ReadDir(*extra)
		for _, e := range ents {
			name := e.Name()
			i := strings.Index(name, "__")
			if i < 0 || !strings.HasSuffix(name, ".go.txt") {
				continue
			}
			pkgdir := strings.ReplaceAll(name[:i], "-", "/")
			b, err := os.ReadFile(filepath.Join(*extra, name))
			if err != nil {
				fatal(err.Error())
			}
			dst := filepath.Join(*out, "repo", pkgdir, "zz_verif_"+strings.TrimSuffix(name[i+2:], ".txt"))
			if err := os.WriteFile(dst, b, 0644); err != nil {
				fatal(err.Error())
			}
		}
	}
	fmt.Printf("instrumented %d files into %s\n", n, *out)
}

func fatal(s string) {
	fmt.Fprintln(os.Stderr, "instr:", s)
	os.Exit(2)
}

func rewriteFile(src, dst string, rewrites map[string][2]string, rewriteGo bool) error {
	fset := token.NewFileSet()
	f, err := parser.ParseFile(fset, src, nil, parser.ParseComments)
	if err != nil {
		return err
	}
	for _, imp := range f.Imports {
		path, _ := strconv.Unquote(imp.Path.Value)
		if rw, ok := rewrites[path]; ok {
			imp.Path.Value = strconv.Quote(rw[1])
			if imp.Name == nil {
				imp.Name = ast.NewIdent(rw[0])
			}
		}
	}
	usedGo := false
	if rewriteGo {
		ast.Inspect(f, func(n ast.Node) bool {
			blk, ok := n.(*ast.BlockStmt)
			if !ok {
				return true
			}
			for i, st := range blk.List {
				gs, ok := st.(*ast.GoStmt)
				if !ok {
					continue
				}
				name := exprName(gs.Call.Fun)
				blk.List[i] = &ast.ExprStmt{X: &ast.CallExpr{
					Fun: &ast.SelectorExpr{X: ast.NewIdent("verifsimrt"), Sel: ast.NewIdent("Go")},
					Args: []ast.Expr{
						&ast.BasicLit{Kind: token.STRING, Value: strconv.Quote(name)},
						&ast.FuncLit{
							Type: &ast.FuncType{Params: &ast.FieldList{}},
							Body: &ast.BlockStmt{List: []ast.Stmt{&ast.ExprStmt{X: gs.Call}}},
						},
					},
				}}
				usedGo = true
			}
			return true
		})
		// a scheduling point after every channel receive (statement forms `<-ch`, `x := <-ch`, receive cases of a
		// select, and `range` over an expression whose name says it is a channel - there is no type information here).
		// It only parks when the run asked for extra scheduling points (SchedConfig.YieldOnUnlock).
		after := func() ast.Stmt {
			return &ast.ExprStmt{X: &ast.CallExpr{Fun: &ast.SelectorExpr{X: ast.NewIdent("verifsimrt"), Sel: ast.NewIdent("AfterRecv")}}}
		}
		isRecv := func(st ast.Stmt) bool {
			var e ast.Expr
			switch v := st.(type) {
			case *ast.ExprStmt:
				e = v.X
			case *ast.AssignStmt:
				if len(v.Rhs) == 1 {
					e = v.Rhs[0]
				}
			}
			u, ok := e.(*ast.UnaryExpr)
			return ok && u.Op == token.ARROW
		}
		chanName := func(e ast.Expr) bool {
			n := strings.ToLower(exprName(e))
			return strings.Contains(n, "chan") || strings.HasSuffix(n, ".c")
		}
		fix := func(list []ast.Stmt) []ast.Stmt {
			var out []ast.Stmt
			for _, st := range list {
				out = append(out, st)
				if isRecv(st) {
					out = append(out, after())
					usedGo = true
				}
			}
			return out
		}
		ast.Inspect(f, func(n ast.Node) bool {
			switch v := n.(type) {
			case *ast.BlockStmt:
				v.List = fix(v.List)
			case *ast.CaseClause:
				v.Body = fix(v.Body)
			case *ast.CommClause:
				v.Body = fix(v.Body)
				if v.Comm != nil && isRecv(v.Comm) {
					v.Body = append([]ast.Stmt{after()}, v.Body...)
					usedGo = true
				}
			case *ast.RangeStmt:
				if chanName(v.X) && v.Body != nil {
					v.Body.List = append([]ast.Stmt{after()}, v.Body.List...)
					usedGo = true
				}
			}
			return true
		})
	}
	if usedGo {
		spec := &ast.ImportSpec{Name: ast.NewIdent("verifsimrt"), Path: &ast.BasicLit{Kind: token.STRING, Value: strconv.Quote("verifsim/simrt")}}
		added := false
		for _, d := range f.Decls {
			if gd, ok := d.(*ast.GenDecl); ok && gd.Tok == token.IMPORT {
				gd.Specs = append(gd.Specs, spec)
				if !gd.Lparen.IsValid() {
					gd.Lparen = gd.Pos()
					gd.Rparen = gd.End()
				}
				added = true
				break
			}
		}
		if !added {
			f.Decls = append([]ast.Decl{&ast.GenDecl{Tok: token.IMPORT, Specs: []ast.Spec{spec}}}, f.Decls...)
		}
	}
	if err := os.MkdirAll(filepath.Dir(dst), 0755); err != nil {
		return err
	}
	o, err := os.Create(dst)
	if err != nil {
		return err
	}
	defer o.Close()
	return format.Node(o, fset, f)
}

func exprName(e ast.Expr) string {
	switch v := e.(type) {
	case *ast.Ident:
		return v.Name
	case *ast.SelectorExpr:
		return exprName(v.X) + "." + v.Sel.Name
	case *ast.FuncLit:
		return "func"
	}
	return "go"
}

module verifinstr

go 1.26

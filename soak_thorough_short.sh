#!/bin/bash
# thorough tier of every check with a short budget (thorough-only generator paths), evidence kept apart
here=$(cd "$(dirname "$0")" && pwd)
export VERIF_EVIDENCE=$here/soak-evidence VERIF_BUDGET_S=${VERIF_BUDGET_S:-150}
mkdir -p $VERIF_EVIDENCE
for p in ${@:-C01 C02 C03 C04 C05 C06 C07 C09 C10 C11 C12 C13 C15 C17 C18 C19}; do
  out=$($here/verifctl check $p --tier thorough --seed ${SEED:-11} 2>&1); rc=$?
  echo "$p rc=$rc $(echo "$out" | grep -E "^$p " | head -1)"
  if [ $rc -ne 0 ]; then echo "$out" | tail -30; fi
done
